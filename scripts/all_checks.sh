#!/bin/bash
# runs the quick check of every claimed property on the current /repo tree; exit 1 if any fails
cd /verif
fail=0
for f in properties/C*.json; do
  id=$(basename $f .json)
  out=$(./bin/vc check $id --tier quick 2>/dev/null | tail -1)
  echo "$out"
  case "$out" in *" 0 violations"*) ;; *) fail=1;; esac
done
exit $fail
