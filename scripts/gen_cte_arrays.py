#!/usr/bin/env python3
# Generates the contracts of cte.(*arrayEncoderEngine).beginArray{Uint8..Float64} (C25): for every
# defined numeric format setting, the array header written and the element text chosen go together,
# as the CTE grammar pairs them: "@u16[" decimal, "@u16b[" binary digits, "@u16o[" octal, "@u16x["
# hexadecimal; float arrays only "@f32[" (decimal) and "@f32x[" (hexadecimal without prefix).
# The expected texts are written here from the CTE specification, not read from the tables in the code.
ints = [("Uint8", "u8", 1, "8"), ("Uint16", "u16", 2, "16"), ("Uint32", "u32", 4, "32"), ("Uint64", "u64", 8, "64"),
        ("Int8", "i8", 1, "8"), ("Int16", "i16", 2, "16"), ("Int32", "i32", 4, "32"), ("Int64", "i64", 8, "64")]
floats = [("Float16", "f16", 2), ("Float32", "f32", 4), ("Float64", "f64", 8)]

def hdr(text):
    cs = ["outLen == old(outLen) + %d" % len(text)]
    for i, ch in enumerate(text):
        cs.append("out[old(outLen)+%d] == '%s'" % (i, ch))
    return " && ".join(cs)

FMT = 'closureVar(_this.addElementsFunc, "format")'
out = []
tables = set()
for name, pre, w, tw in ints:
    tables.add("arrayHeaders" + name); tables.add("arrayFormats" + tw)
for name, pre, w in floats:
    tables.add("arrayHeaders" + name)
tables.add("arrayFormatsGeneral")
out.append("//@ const_global " + ", ".join(sorted(tables)))
out.append("")
common = ["//@   requires _this.stream != nil && _this.config != nil && CteWriterOK(_this.stream) && !wfailed",
          "//@   let f = _this.config.Encoder.CTE.DefaultNumericFormats.Array.%s",
          "//@   requires f == 0 || f == 1 || (f >= 4 && f <= 9)",
          "//@   modifies obj(_this), out, outLen, wfailed, Writer.Column, Writer.Buffer, memall(uint8), alloc"]
for name, pre, w, tw in ints:
    out.append("//@ func (*arrayEncoderEngine).beginArray%s" % name)
    for c in common:
        out.append(c % name if "%s" in c else c)
    out.append('//@   ensures !wfailed && _this.arrayElementByteWidth == %d && closureIs(_this.addElementsFunc, "beginArray%s$1")' % (w, name))
    out.append("//@   ensures %s[0] == '%%' && len(%s) >= 2 && len(%s) <= 5" % (FMT, FMT, FMT))
    for cond, letter, verb in (("f <= 1", "", "v"), ("f == 4 || f == 5", "b", "b"), ("f == 6 || f == 7", "o", "o"), ("f == 8 || f == 9", "x", "x")):
        out.append("//@   ensures %s ==> %s && %s[len(%s) - 1] == '%s'" % (cond, hdr("@" + pre + letter + "["), FMT, FMT, verb))
    out.append("//@   ensures f == 0 || f == 1 || f == 4 || f == 6 || f == 8 ==> len(%s) == 2" % FMT)
    out.append("//@   xensures wfailed")
    out.append("")
for name, pre, w in floats:
    out.append("//@ func (*arrayEncoderEngine).beginArray%s" % name)
    for c in common:
        out.append(c % name if "%s" in c else c)
    out.append("//@   ensures !wfailed && _this.arrayElementByteWidth == %d" % w)
    out.append('//@   ensures f == 8 || f == 9 ==> closureIs(_this.addElementsFunc, "beginArray%s$1") && %s' % (name, hdr("@" + pre + "x[")))
    out.append('//@   ensures !(f == 8 || f == 9) ==> closureIs(_this.addElementsFunc, "beginArray%s$2") && %s && len(%s) == 2 && %s[0] == \'%%\' && %s[1] == \'v\'' % (name, hdr("@" + pre + "["), FMT, FMT, FMT))
    out.append("//@   xensures wfailed")
    out.append("")

# ---------------------------------------------------------------------------------------------
# Element writers: the function literals stored in addElementsFunc.
out.append("// Element writers: element k of a data event is the little-endian image of bytes k*w .. k*w+w-1; it is")
out.append("// handed to fmt as the Go type that prints it with the right sign (unsigned kinds as uint/uint8/uint64,")
out.append("// signed kinds as intN), float elements are widened to float64 keeping NaNs signaling or quiet.")
out.append("//@ spec LE16(d []byte, k uint64) uint64 = uint64(d[2*k]) | uint64(d[2*k+1]) << 8")
out.append("//@ spec LE32(d []byte, k uint64) uint64 = uint64(d[4*k]) | uint64(d[4*k+1]) << 8 | uint64(d[4*k+2]) << 16 | uint64(d[4*k+3]) << 24")
out.append("//@ spec LE64(d []byte, k uint64) uint64 = uint64(d[8*k]) | uint64(d[8*k+1]) << 8 | uint64(d[8*k+2]) << 16 | uint64(d[8*k+3]) << 24 | uint64(d[8*k+4]) << 32 | uint64(d[8*k+5]) << 40 | uint64(d[8*k+6]) << 48 | uint64(d[8*k+7]) << 56")
out.append("//@ spec F32NaN(x uint32) bool = x & 0x7f800000 == 0x7f800000 && x & 0x007fffff != 0")
out.append("//@ spec F32Elem(v uint64, x uint32) bool = ite(F32NaN(x), isNaN(float64frombits(v)) && ((v & 0x0008000000000000 != 0) == (x & 0x00400000 != 0)), v == bits(float64(float32frombits(x))))")
out.append("")
MOD = "arrayEncoderEngine.hasWrittenElements, out, outLen, wfailed, Writer.Column, Writer.Buffer, memall(uint8), alloc, txtInts, txtLastInt, txtLastBase, fmtN, fmtVal, fmtTyp, fltN, fltVal, fltHex"
def closure(name, n, w, cnt, elemfact, extra_req=""):
    sh = {1: 0, 2: 1, 4: 2, 8: 3}[w]
    rs = (" >> %d" % sh) if sh else ""
    o = []
    o.append("//@ func (*arrayEncoderEngine).beginArray%s$%d" % (name, n))
    o.append("//@   requires _this != nil && BufOK(_this.stream) && !wfailed && len(data) & %d == 0 && len(data) <= 0x1000000000 && data.arr != _this.stream.Buffer.arr && allocated(data) && %s <= 0x10000000000%s" % (w - 1, cnt, extra_req))
    o.append("//@   modifies " + MOD)
    o.append("//@   ensures !wfailed && %s == old(%s) + uint64(len(data))%s" % (cnt, cnt, rs))
    o.append("//@   ensures forall k uint64 :: k < uint64(len(data))%s ==> %s" % (rs, elemfact("data", "old(%s) + k" % cnt)))
    o.append("//@   xensures wfailed")
    o.append("//@   loop 0 modifies " + MOD)
    if w == 1:
        # for _, b := range data: the hidden index of the range loop is called rangeindex (last element done)
        o.append("//@   loop 0 invariant !wfailed && BufOK(_this.stream) && data.arr != _this.stream.Buffer.arr && 0 - 1 <= rangeindex && rangeindex < len(data) || (len(data) == 0 && rangeindex == 0 - 1)")
        o.append("//@   loop 0 invariant !wfailed && BufOK(_this.stream) && data.arr != _this.stream.Buffer.arr")
        o.append("//@   loop 0 invariant forall i int :: 0 <= i && i < len(data) ==> data[i] == old(data[i])")
        o.append("//@   loop 0 invariant %s == old(%s) + uint64(rangeindex + 1)" % (cnt, cnt))
        o.append("//@   loop 0 invariant forall k uint64 :: k < uint64(rangeindex + 1) ==> %s" % elemfact("data", "old(%s) + k" % cnt))
        o.append("//@   loop 0 decreases len(data) - rangeindex")
    else:
        o.append("//@   loop 0 invariant !wfailed && BufOK(_this.stream) && data.arr != _this.stream.Buffer.arr && data.arr == data0.arr && len(data) <= len(data0) && data.off + len(data) == data0.off + len(data0) && len(data) & %d == 0" % (w - 1))
        o.append("//@   loop 0 invariant forall i int :: 0 <= i && i < len(data0) ==> data0[i] == old(data0[i])")
        o.append("//@   loop 0 invariant %s == old(%s) + uint64(len(data0) - len(data))%s" % (cnt, cnt, rs))
        o.append("//@   loop 0 invariant forall k uint64 :: k < uint64(len(data0) - len(data))%s ==> %s" % (rs, elemfact("data0", "old(%s) + k" % cnt)))
        o.append("//@   loop 0 decreases len(data)")
    o.append("")
    return o
LE = {1: "uint64(old(%s[k]))", 2: "old(LE16(%s, k))", 4: "old(LE32(%s, k))", 8: "old(LE64(%s, k))"}
SEXT = {1: "uint64(int64(int8(%s)))", 2: "uint64(int64(int16(%s)))", 4: "uint64(int64(int32(%s)))", 8: "%s"}
for name, pre, w, tw in ints:
    signed = name.startswith("Int")
    def fact(d, idx, w=w, signed=signed):
        v = LE[w] % d
        if signed:
            v = SEXT[w] % v
        return "fmtTyp[%s] == %d && fmtVal[%s] == %s" % (idx, 2 if signed else 1, idx, v)
    out.extend(closure(name, 1, w, "fmtN", fact))
for name, pre, w in floats:
    def x32(d, w=w):
        if w == 2:
            return "uint32(old(LE16(%s, k))) << 16" % d
        return "uint32(old(LE32(%s, k)))" % d
    for n, hexflag in ((1, "fltHex[%s]"), (2, "!fltHex[%s]")):
        if w == 8:
            def fact(d, idx, hexflag=hexflag):
                return (hexflag % idx) + " && fltVal[%s] == old(LE64(%s, k))" % (idx, d)
        else:
            def fact(d, idx, hexflag=hexflag, w=w):
                return (hexflag % idx) + " && F32Elem(fltVal[%s], %s)" % (idx, x32(d))
        out.extend(closure(name, n, w, "fltN", fact))
print("\n".join(out))
