#!/usr/bin/env python3
# Generates the contracts of cte.(*arrayEncoderEngine).beginArray{Uint8..Float64} (C25): for every
# defined numeric format setting, the array header written and the element text chosen go together,
# as the CTE grammar pairs them: "@u16[" decimal, "@u16b[" binary digits, "@u16o[" octal, "@u16x["
# hexadecimal; float arrays only "@f32[" (decimal) and "@f32x[" (hexadecimal without prefix).
# The expected texts are written here from the CTE specification, not read from the tables in the code.
ints = [("Uint8", "u8", 1, "8"), ("Uint16", "u16", 2, "16"), ("Uint32", "u32", 4, "32"), ("Uint64", "u64", 8, "64"),
        ("Int8", "i8", 1, "8"), ("Int16", "i16", 2, "16"), ("Int32", "i32", 4, "32"), ("Int64", "i64", 8, "64")]
floats = [("Float16", "f16", 2), ("Float32", "f32", 4), ("Float64", "f64", 8)]

def hdr(text):
    cs = ["outLen == old(outLen) + %d" % len(text)]
    for i, ch in enumerate(text):
        cs.append("out[old(outLen)+%d] == '%s'" % (i, ch))
    return " && ".join(cs)

FMT = 'closureVar(_this.addElementsFunc, "format")'
out = []
tables = set()
for name, pre, w, tw in ints:
    tables.add("arrayHeaders" + name); tables.add("arrayFormats" + tw)
for name, pre, w in floats:
    tables.add("arrayHeaders" + name)
tables.add("arrayFormatsGeneral")
out.append("//@ const_global " + ", ".join(sorted(tables)))
out.append("")
common = ["//@   requires _this.stream != nil && _this.config != nil && CteWriterOK(_this.stream) && !wfailed",
          "//@   let f = _this.config.Encoder.CTE.DefaultNumericFormats.Array.%s",
          "//@   requires f == 0 || f == 1 || (f >= 4 && f <= 9)",
          "//@   modifies obj(_this), out, outLen, wfailed, Writer.Column, Writer.Buffer, memall(uint8), alloc"]
for name, pre, w, tw in ints:
    out.append("//@ func (*arrayEncoderEngine).beginArray%s" % name)
    for c in common:
        out.append(c % name if "%s" in c else c)
    out.append('//@   ensures !wfailed && _this.arrayElementByteWidth == %d && closureIs(_this.addElementsFunc, "beginArray%s$1")' % (w, name))
    out.append("//@   ensures %s[0] == '%%' && len(%s) >= 2 && len(%s) <= 5" % (FMT, FMT, FMT))
    for cond, letter, verb in (("f <= 1", "", "v"), ("f == 4 || f == 5", "b", "b"), ("f == 6 || f == 7", "o", "o"), ("f == 8 || f == 9", "x", "x")):
        out.append("//@   ensures %s ==> %s && %s[len(%s) - 1] == '%s'" % (cond, hdr("@" + pre + letter + "["), FMT, FMT, verb))
    out.append("//@   ensures f == 0 || f == 1 || f == 4 || f == 6 || f == 8 ==> len(%s) == 2" % FMT)
    out.append("//@   xensures wfailed")
    out.append("")
for name, pre, w in floats:
    out.append("//@ func (*arrayEncoderEngine).beginArray%s" % name)
    for c in common:
        out.append(c % name if "%s" in c else c)
    out.append("//@   ensures !wfailed && _this.arrayElementByteWidth == %d" % w)
    out.append('//@   ensures f == 8 || f == 9 ==> closureIs(_this.addElementsFunc, "beginArray%s$1") && %s' % (name, hdr("@" + pre + "x[")))
    out.append('//@   ensures !(f == 8 || f == 9) ==> closureIs(_this.addElementsFunc, "beginArray%s$2") && %s && len(%s) == 2 && %s[0] == \'%%\' && %s[1] == \'v\'' % (name, hdr("@" + pre + "["), FMT, FMT, FMT))
    out.append("//@   xensures wfailed")
    out.append("")
print("\n".join(out))
