#!/usr/bin/env python3
"""Regenerates /verif/MANIFEST.json from /verif/properties/*.json (claimed) and the not-applicable table below."""
import json, glob, os, subprocess
V='/verif'
NA = {
 "C02":"the round trip is decided by the ANTLR-generated CTE lexer/parser and by strconv/big/apd text conversion; no contract on /repo code can state what the grammar accepts (DESIGN.md section 6, C02)",
 "C03":"agreement between the Go validators and the CTE grammar's token classes; the grammar side is not code a contract can be attached to",
 "C06":"correctness of reflect-built untyped values; no integer/byte kernel carries it and contracts would only axiomatise package reflect",
 "C13":"marker and reference identifiers live in map[interface{}] tables keyed by Go strings; the memory model of the VC generator does not interpret string contents inside interface keys, so 'every reference names a marker that appears somewhere' cannot be stated as a contract on /repo code, and the value-building half (reference filling) is reflect code; the parts that are contractable are decided elsewhere: marker limit, duplicate ids and forward-reference type compatibility in C14 (MarkObject), marker placement in C10 (transition table)",
 "C17":"quantifies over schedules; the VC generator has no concurrency semantics (no go statements, no happens-before)",
 "C20":"pointer-graph isomorphism through reflect setters and an external duplicate finder (go-duplicates); nothing within reach of function contracts",
 "C21":"field selection, order and name matching are reflect + strings + regexp + sort code; only two leaf helpers are contractable and they do not decide the property",
 "C24":"literal values are computed by strconv/math/big/apd from tokens cut by the generated lexer; the repository's own code there is glue",
 "C25":"'readable' is a property of the grammar's array tokens and fmt verbs chosen from tables, not of Go control flow a contract can describe",
}
PENDING = "contracts for this property are not written yet (engine milestone of DESIGN.md section 10 not reached in this session); no other technique is substituted"
props=[json.loads(l) for l in open(V+'/properties.jsonl')]
claimed={}
for f in sorted(glob.glob(V+'/properties/C*.json')):
    d=json.load(open(f)); claimed[d['id']]=d
hooks=subprocess.run(['git','-C','/repo','log','--format=%H %s'],capture_output=True,text=True).stdout.strip().split('\n')
hook_commits=[l.split(' ',1)[0] for l in hooks if 'verif hook' in l]
checks=[]; na=[]
for p in props:
    i=p['id']
    if i in claimed:
        d=claimed[i]
        checks.append({
          "property_id":i,
          "quick_cmd":"./bin/vc check %s --tier quick"%i,
          "thorough_cmd":"./bin/vc check %s --tier thorough"%i,
          "evidence_file":"/verif/evidence/%s.json"%i,
          "replay_cmd_template":"./bin/vc replay {path}",
          "engine":"vc",
          "level_claimed":{"category":"proof","text":d.get("decided","")+" NOT DECIDED: "+d.get("not_decided",""),"design_ref":"DESIGN.md section 6 (%s)"%i},
          "level_note":"trusted base: the VC generator and its SMT encoding of the Go subset, go/ssa, the solvers, the spec functions in /verif/spec; assumptions: "+"; ".join(d.get("assumptions",[])),
          "technique":"contract-based deductive verification: weakest-precondition style VCs generated from go/ssa of the real functions against //@ contracts, discharged by z3/cvc5"})
    else:
        na.append({"property_id":i,"reason":NA.get(i,PENDING)})
m={"version":1,
 "setup_cmd":"cd /verif/tool && GOFLAGS=-mod=vendor GOPROXY=off GOSUMDB=off GOTOOLCHAIN=local go build -o ../bin/vc ./cmd/vc",
 "hooks":{"guard":"verif","enable":"go build -tags verif (the hook files contracts_verif.go are comment-only and are read as text by the VC generator)",
   "baseline_off_cmd":"cd /repo && GOFLAGS=-mod=mod GOPROXY=off GOSUMDB=off go test -json -vet=off -count=1 -timeout 25m ./...",
   "source_commits":hook_commits,"add_only":True},
 "engines":[{"name":"vc","path":"/verif/tool","serves_properties":sorted(claimed.keys()),
   "kind_free_text":"self-written verification-condition generator: symbolic execution of go/ssa of the real /repo functions, callees replaced by contracts, loops cut at invariants or unrolled with unwinding assertions, defer/recover modelled; contracts are //@ comments in /repo/<pkg>/contracts_verif.go; obligations discharged by z3 5.1.0, cvc5 1.0, z3 4.8.12"}],
 "checks":checks,
 "notes":"see /verif/DESIGN.md; known findings in /verif/known_findings.json; must-fail mutants in /verif/selftest/mutants",
 "not_applicable":na}
json.dump(m,open(V+'/MANIFEST.json','w'),indent=1)
print("claimed:",sorted(claimed.keys()))
