#!/bin/bash
# usage: scripts/try_seed.sh <property-id> <seed-name> <SEEDED dir> [check-id...]
# Confirms a seeded change (demo fails with it, passes without; suite passes with it), stores it under
# /verif/seeded/<seed-name>/ and runs the quick check(s) on the changed tree. /repo is restored at the end.
set -u
export GOFLAGS=-mod=mod GOPROXY=off GOSUMDB=off GOTOOLCHAIN=local
id=$1; name=$2; src=$3; shift 3
checks=${@:-$id}
dst=/verif/seeded/$name
mkdir -p $dst
cp $src/patch.diff $src/demo_test.go $src/meta.json $dst/ 2>/dev/null
pkgdir=$(head -3 $dst/demo_test.go | grep -o 'into [^ ]*' | head -1 | awk '{print $2}' | tr -d '`' | sed 's:/$::')
cd /repo
if [ -n "$(git status --porcelain)" ]; then echo "repo not clean"; exit 2; fi
demo_pkg=$(grep -m1 '^package ' $dst/demo_test.go | awk '{print $2}')
echo "demo package=$demo_pkg dir hint=$pkgdir"
run_demo() { cp $dst/demo_test.go /repo/$1/zz_seed_demo_test.go; (cd /repo && go test -vet=off -count=1 -timeout 120s ./$1 2>&1 | tail -3); rm -f /repo/$1/zz_seed_demo_test.go; }
d=${DEMO_DIR:-$pkgdir}
echo "--- demo on unchanged tree"; run_demo $d
git apply $dst/patch.diff || { echo "patch does not apply"; exit 2; }
echo "--- demo with change"; run_demo $d
echo "--- suite with change"; go test -vet=off -count=1 ./... 2>&1 | grep -v "no test files" | grep -v "^ok" | tail -5; echo "(suite done)"
cd /verif
for c in $checks; do echo "--- check $c"; ./bin/vc check $c --tier quick 2>&1 | grep -E "VIOLATION|KNOWN|property" | cut -c1-300 | head -8; done
git -C /repo checkout -- . ; git -C /repo status --short
# refresh the evidence files on the unchanged tree (the runs above rewrote them on the changed one)
for c in $checks; do ./bin/vc check $c --tier quick >/dev/null 2>&1 || echo "WARNING: $c does not pass on the unchanged tree"; done
