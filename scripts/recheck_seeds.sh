#!/bin/bash
# usage: scripts/recheck_seeds.sh [vc-binary] [seed-name-pattern]
# Re-applies every stored seeded change (seeded/Cxx-*/patch.diff) to a scratch worktree of /repo's HEAD
# and runs the quick check of its property against it. Prints CAUGHT / ESCAPED per seed; never touches
# /repo or /verif/evidence.
set -u
export GOFLAGS=-mod=mod GOPROXY=off GOSUMDB=off GOTOOLCHAIN=local
VC=${1:-/verif/bin/vc}; pat=${2:-C}
extra() { case $1 in C04-float-array*) echo C25;; *) echo "";; esac; }
for d in /verif/seeded/${pat}*/; do
  n=$(basename $d); id=${n%%-*}
  [ -f $d/patch.diff ] || continue
  W=/var/tmp/rs_repo_$$; V=/var/tmp/rs_verif_$$
  git -C /repo worktree add --detach $W HEAD >/dev/null 2>&1 || { echo "cannot create worktree"; exit 2; }
  mkdir -p $V/evidence; cp -r /verif/properties /verif/contracts /verif/spec /verif/known_findings.json /verif/selftest $V/
  if git -C $W apply $d/patch.diff 2>/dev/null; then
    res=ESCAPED; first=""
    for c in $id $(extra $n); do
      out=$($VC check $c --tier quick --repo $W --verif $V 2>/dev/null | grep -E "^VIOLATION" | head -1)
      if [ -n "$out" ]; then res=CAUGHT; first=$(echo "$out" | grep -o "obligation=[^ ]*"); break; fi
    done
    echo "$res $n $first"
  else
    echo "STALE $n (patch does not apply to the current tree)"
  fi
  git -C /repo worktree remove --force $W; rm -rf $V
done
git -C /repo worktree prune
