#!/bin/bash
# usage: scripts/try_harmless.sh <name> <HARMLESS dir> <check-id...>
# Applies each behaviour-preserving change (changeN.diff) to a scratch worktree of /repo's HEAD and runs
# the given quick checks against it: any VIOLATION here is a false alarm of the machinery.
set -u
export GOFLAGS=-mod=mod GOPROXY=off GOSUMDB=off GOTOOLCHAIN=local
name=$1; src=$2; shift 2
dst=/verif/seeded/_harmless/$name
mkdir -p $dst; cp $src/*.diff $src/meta.json $dst/ 2>/dev/null
for d in $dst/change*.diff; do
  W=/var/tmp/hw_repo_$$; V=/var/tmp/hw_verif_$$
  git -C /repo worktree add --detach $W HEAD >/dev/null 2>&1 || { echo "cannot create worktree"; exit 2; }
  mkdir -p $V/evidence; cp -r /verif/properties /verif/contracts /verif/spec /verif/known_findings.json /verif/selftest $V/
  echo "=== $(basename $d): $(git -C $W apply --stat $d 2>/dev/null | tail -1)"
  if git -C $W apply $d; then
    (cd $W && go build ./... 2>&1 | tail -3)
    (cd $W && go test -vet=off -count=1 ./... 2>&1 | grep -v "no test files" | grep -v "^ok" | tail -3)
    for c in "$@"; do ${VC:-/verif/bin/vc} check $c --tier quick --repo $W --verif $V 2>&1 | grep -E "VIOLATION|^property" | sed "s|$V|/verif|g" | cut -c1-260 | head -6; done
  else echo "patch does not apply"; fi
  git -C /repo worktree remove --force $W; rm -rf $V
done
git -C /repo worktree prune
