#!/bin/bash
# usage: scripts/try_seed2.sh <property-id> <seed-name> <SEEDED dir> [check-id...]
# Like try_seed.sh but never touches /repo or /verif/evidence: the seeded change is applied in a scratch
# worktree of /repo's HEAD and the checks run against it with a scratch copy of the verification inputs.
set -u
export GOFLAGS=-mod=mod GOPROXY=off GOSUMDB=off GOTOOLCHAIN=local
id=$1; name=$2; src=$3; shift 3
checks=${@:-$id}
dst=/verif/seeded/$name
mkdir -p $dst
cp $src/patch.diff $src/demo_test.go $src/meta.json $dst/ 2>/dev/null
W=/var/tmp/sc_repo_$$; V=/var/tmp/sc_verif_$$
git -C /repo worktree add --detach $W HEAD >/dev/null 2>&1 || { echo "cannot create worktree"; exit 2; }
mkdir -p $V/evidence; cp -r /verif/properties /verif/contracts /verif/spec /verif/known_findings.json /verif/selftest $V/
d=${DEMO_DIR:?set DEMO_DIR to the package directory of the demo}
run_demo() { cp $dst/demo_test.go $W/$d/zz_seed_demo_test.go; (cd $W && go test -vet=off -count=1 -timeout 120s ./$d 2>&1 | tail -3); rm -f $W/$d/zz_seed_demo_test.go; }
echo "--- demo on unchanged tree"; run_demo
git -C $W apply $dst/patch.diff || { echo "patch does not apply"; git -C /repo worktree remove --force $W; rm -rf $V; exit 2; }
echo "--- demo with change"; run_demo
echo "--- suite with change"; (cd $W && go test -vet=off -count=1 ./... 2>&1 | grep -v "no test files" | grep -v "^ok" | tail -5); echo "(suite done)"
cd /verif
for c in $checks; do echo "--- check $c"; ./bin/vc check $c --tier quick --repo $W --verif $V 2>&1 | grep -E "VIOLATION|KNOWN|property" | sed "s|$V|/verif|g" | cut -c1-300 | head -8; done
git -C /repo worktree remove --force $W; git -C /repo worktree prune; rm -rf $V
