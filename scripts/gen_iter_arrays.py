#!/usr/bin/env python3
# Generates the contracts of iterator.iterateSliceOrArray{Uint16..Float64}: one OnArray event whose
# bytes are the little-endian images of the elements, in order. Output: text to paste/append into
# /repo/iterator/contracts_verif.go between the GENERATED markers.
kinds = [  # name, ArrayType constant value, width, source expression of element q (uint64 image)
    ("Uint16", "ArrayTypeUint16", 2, "rvUint[{q}]"),
    ("Uint32", "ArrayTypeUint32", 4, "rvUint[{q}]"),
    ("Uint64", "ArrayTypeUint64", 8, "rvUint[{q}]"),
    ("Int8", "ArrayTypeInt8", 1, "uint64(rvInt[{q}])"),
    ("Int16", "ArrayTypeInt16", 2, "uint64(rvInt[{q}])"),
    ("Int32", "ArrayTypeInt32", 4, "uint64(rvInt[{q}])"),
    ("Int64", "ArrayTypeInt64", 8, "uint64(rvInt[{q}])"),
    ("Float32", "ArrayTypeFloat32", 4, "uint64(bits(float32(float64frombits(rvFloat[{q}]))))"),
    ("Float64", "ArrayTypeFloat64", 8, "rvFloat[{q}]"),
]
# int / uint slices use the 64-bit packers on this architecture (A-ARCH): same postcondition, no loop
aliases = {"Uint64": "Uint", "Int64": "Int"}
out = []
for name, at, w, src in kinds:
    sh = {1: 0, 2: 1, 4: 2, 8: 3}[w]
    def byte(arr, b):
        q = "rvElem(uint64(v.ptr), %s >> %d)" % (b, sh) if sh else "rvElem(uint64(v.ptr), %s)" % b
        s = src.format(q=q)
        if w == 1:
            return "%s[%s] == uint8(%s)" % (arr, b, s)
        return "%s[%s] == uint8(%s >> uint(8 * (%s & %d)))" % (arr, b, s, b, w - 1)
    ev = 'evArg(old(evLen), 2, "[]byte")'
    out.append("//@ func iterateSliceOrArray%s" % name)
    out.append("//@   requires context != nil && context.EventReceiver != nil")
    out.append("//@   modifies ev, alloc, memall(uint8)")
    out.append("//@   let n = rvLen[uint64(v.ptr)]")
    out.append('//@   ensures evLen == old(evLen) + 1 && evIs(old(evLen), "OnArray") && evArg(old(evLen), 0, "events.ArrayType") == events.%s && evArg(old(evLen), 1, "uint64") == uint64(n)' % at)
    out.append("//@   ensures len(%s) == %d * n" % (ev, w))
    out.append("//@   ensures forall b int :: 0 <= b && b < %d * n ==> %s" % (w, byte(ev, "b")))
    out.append("//@   may_panic")
    out.append("//@   loop 0 modifies mem(data)")
    out.append("//@   loop 0 invariant elementCount == n && 0 <= i && i <= elementCount && len(data) == %d * elementCount && data.off == 0 && fresh(data)" % w)
    out.append("//@   loop 0 invariant forall b int :: 0 <= b && b < %d * i ==> %s" % (w, byte("data", "b")))
    out.append("//@   loop 0 decreases elementCount - i")
    out.append("")
    if name in aliases:
        k = len(out)
        blk = [l for l in out[-13:] if " loop " not in l]
        blk[0] = "//@ func iterateSliceOrArray%s" % aliases[name]
        out.extend(blk)
print("\n".join(out))
