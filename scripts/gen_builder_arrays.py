#!/usr/bin/env python3
# Generates the contracts of the typed array builders of package builder (C04): what a typed-array
# event is unpacked into. Slice builders hand reflect.ValueOf a freshly made []T whose element k is the
# little-endian image of bytes k*w .. k*w+w-1; array builders store the same values through
# reflect (Index(k).SetUint/SetInt/SetFloat).
kinds = [  # name, Go type, events constant, width, signed?, float?
    ("uint16", "uint16", "ArrayTypeUint16", 2, False, False), ("uint32", "uint32", "ArrayTypeUint32", 4, False, False),
    ("uint64", "uint64", "ArrayTypeUint64", 8, False, False), ("int8", "int8", "ArrayTypeInt8", 1, True, False),
    ("int16", "int16", "ArrayTypeInt16", 2, True, False), ("int32", "int32", "ArrayTypeInt32", 4, True, False),
    ("int64", "int64", "ArrayTypeInt64", 8, True, False), ("float32", "float32", "ArrayTypeFloat32", 4, False, True),
    ("float64", "float64", "ArrayTypeFloat64", 8, False, True)]
def le(d, k, w):
    return " | ".join(["uint64(%s[%d*%s%s])%s" % (d, w, k, ("+%d" % j) if j else "", (" << %d" % (8 * j)) if j else "") for j in range(w)])
out = []
out.append("//@ ghost lastValueOf any")
out.append("//@ extern reflect::ValueOf")
out.append("//@   modifies lastValueOf, alloc")
out.append("//@   ensures lastValueOf == i")
out.append("//@ extern reflect::(Value).Set")
out.append("//@   may_panic")
out.append("//@ func PanicBadEvent")
out.append("//@   trusted")
out.append("//@   noreturn")
out.append("")
for name, gt, at, w, signed, flt in kinds:
    sh = {1: 0, 2: 1, 4: 2, 8: 3}[w]
    n = "len(value) >> %d" % sh if sh else "len(value)"
    P = 'payload(lastValueOf, "[]%s")' % gt
    def elem(arr, k):
        img = le("value", k, w)
        if flt:
            return "uint64(bits(%s[%s])) == %s" % (arr, k, img)
        if signed or True:
            return "uint64(%s[%s])%s == %s" % (arr, k, "" if w == 8 else " & 0x%x" % ((1 << (8 * w)) - 1), img)
    out.append("//@ func (*%sSliceBuilder).BuildFromArray" % name)
    out.append("//@   requires len(value) <= 0x1000000000")
    out.append("//@   modifies lastValueOf, alloc, memall(%s)" % gt)
    out.append("//@   may_panic")
    out.append('//@   ensures arrayType == events.%s && typeIs(lastValueOf, "[]%s") && len(%s) == %s' % (at, gt, P, n))
    out.append("//@   ensures forall k int :: 0 <= k && k < %s ==> %s" % (n, elem(P, "k")))
    out.append("//@   loop 0 modifies mem(slice)")
    out.append("//@   loop 0 invariant 0 <= i && i <= elemCount && elemCount == %s && len(slice) == elemCount && slice.off == 0 && fresh(slice)" % n)
    out.append("//@   loop 0 invariant forall k int :: 0 <= k && k < i ==> %s" % elem("slice", "k"))
    out.append("//@   loop 0 decreases elemCount - i")
    out.append("")

# array builders: the same values stored through reflect
akinds = [("uint8", "uint8", "ArrayTypeUint8", 1, False, False)] + kinds
for name, gt, at, w, signed, flt in akinds:
    sh = {1: 0, 2: 1, 4: 2, 8: 3}[w]
    n = "len(value) >> %d" % sh if sh else "len(value)"
    img = le("value", "k", w)
    ET = "rvBits(rvElemTyp(uint64(dst.typ_)))"
    Q = "rvElem(uint64(dst.ptr), k)"
    if flt:
        ghost = "rvFloat"
        src = "float64(float32frombits(uint32(%s)))" % img if w == 4 else "float64frombits(%s)" % img
        if w == 8:
            fact = "!isNaN(%s) && %s == 64 ==> rvFloat[%s] == %s" % (src, ET, Q, img)
        else:
            fact = "!isNaN(%s) ==> rvFloat[%s] == bits(rv.FRound(%s, %s))" % (src, Q, ET, src)
    elif signed:
        ghost = "rvInt"
        cast = {1: "int64(int8(%s))", 2: "int64(int16(%s))", 4: "int64(int32(%s))", 8: "int64(%s)"}[w] % img
        fact = "rvInt[%s] == rv.SExt(%s, %s)" % (Q, ET, cast)
    else:
        ghost = "rvUint"
        fact = "rvUint[%s] == rv.ZExt(%s, %s)" % (Q, ET, img)
    out.append("//@ func (*%sArrayBuilder).BuildFromArray" % name)
    out.append("//@   requires len(value) <= 0x1000000000 && rvLen[uint64(dst.ptr)] >= %s" % n)
    out.append("//@   modifies %s, alloc" % ghost)
    out.append("//@   may_panic")
    out.append("//@   ensures arrayType == events.%s" % at)
    out.append("//@   ensures forall k int :: 0 <= k && k < %s ==> %s" % (n, fact))
    out.append("//@   loop 0 modifies %s" % ghost)
    if w == 1 and name == "uint8":
        out.append("//@   loop 0 invariant 0 <= i && i <= len(value)")
    else:
        out.append("//@   loop 0 invariant 0 <= i && i <= elemCount && elemCount == %s" % n)
    out.append("//@   loop 0 invariant forall k int :: 0 <= k && k < i ==> %s" % fact)
    out.append("//@   loop 0 decreases %s - i" % ("len(value)" if name == "uint8" else "elemCount"))
    out.append("")
print("\n".join(out))
