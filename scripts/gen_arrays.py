#!/usr/bin/env python3
# Generates contracts for internal/arrays (and the ce wrappers): little-endian images, element by element.
import sys
types = [  # name, Go elem type, bytes per element, kind
 ("Int8","int8",1,"int"), ("Uint16","uint16",2,"uint"), ("Int16","int16",2,"int"),
 ("Uint32","uint32",4,"uint"), ("Int32","int32",4,"int"), ("Uint64","uint64",8,"uint"), ("Int64","int64",8,"int"),
 ("Float16","float32",2,"f16"), ("Float32","float32",4,"f32"), ("Float64","float64",8,"f64"),
]
def lower(n): return n[0].lower()+n[1:]
def pat(n, kind, e):
    # unsigned bit pattern of element expression e, as uintW
    if kind=="uint": return e
    if kind=="int": return "uint%d(%s)" % (n*8, e)
    if kind=="f32": return "bits(%s)" % e
    if kind=="f64": return "bits(%s)" % e
    if kind=="f16": return "bits(%s)" % e   # uint32 pattern, upper half used
def tobytes_facts(n, kind, res, k, e):
    p = pat(n, kind, e)
    fs=[]
    for j in range(n):
        sh = 8*j if kind!="f16" else 16+8*j
        fs.append("%s[%d*%s+%d] == byte(%s >> %d)" % (res, n, k, j, p, sh))
    return " && ".join(fs)
def frombytes_fact(n, kind, res, k, d):
    W = n*8 if kind!="f16" else 32
    parts=[]
    for j in range(n):
        sh = 8*j if kind!="f16" else 16+8*j
        parts.append("uint%d(%s[%d*%s+%d]) << %d" % (W, d, n, k, j, sh))
    s=" | ".join(parts)
    lhs = "%s[%s]" % (res,k)
    if kind=="uint": return "%s == (%s)" % (lhs, s)
    if kind=="int": return "uint%d(%s) == (%s)" % (W, lhs, s)
    return "bits(%s) == (%s)" % (lhs, s)
out=[]; w=out.append
pkg = sys.argv[1]
if pkg=="arrays":
    w("//@ const_global isLittleEndian")
    w("")
    for name,gt,n,kind in types:
        # XSliceToBytes
        f = lower(name)+"SliceToBytes"
        w("//@ func %s" % f)
        w("//@   modifies alloc")
        w("//@   ensures len(result) == len(data)*%d && fresh(result)" % n)
        w("//@   ensures forall k int :: 0 <= k && k < len(data) ==> %s" % tobytes_facts(n,kind,"result","k","data[k]"))
        w("//@   loop 0 modifies mem(result)")
        w("//@   loop 0 invariant -1 <= rangeindex && rangeindex < len(data) && len(result) == len(data)*%d && result.off == 0 && result.arr != data.arr" % n)
        w("//@   loop 0 invariant forall k int :: 0 <= k && k <= rangeindex ==> %s" % tobytes_facts(n,kind,"result","k","data[k]"))
        w("")
        # bytesToXSlice
        f = "bytesTo"+name+"Slice"
        w("//@ func %s" % f)
        w("//@   modifies alloc")
        w("//@   ensures len(result) == len(data)/%d && fresh(result)" % n)
        w("//@   ensures forall k int :: 0 <= k && k < len(data)/%d ==> %s" % (n, frombytes_fact(n,kind,"result","k","data")))
        w("//@   loop 0 modifies mem(result)")
        if n==1:
            w("//@   loop 0 invariant -1 <= rangeindex && rangeindex < len(data) && len(result) == len(data) && result.off == 0 && result.arr != data.arr")
            w("//@   loop 0 invariant forall k int :: 0 <= k && k <= rangeindex ==> %s" % frombytes_fact(n,kind,"result","k","data"))
        else:
            w("//@   loop 0 invariant 0 <= i && i <= length && length == len(data)/%d && len(result) == length && result.off == 0 && result.arr != data.arr" % n)
            w("//@   loop 0 invariant forall k int :: 0 <= k && k < i ==> %s" % frombytes_fact(n,kind,"result","k","data"))
        w("")
    w("// Exported entry points of the build that runs (!purego). The unsafe reinterpretation branches are")
    w("// guarded by isLittleEndian, which the package initialiser leaves false on a little-endian host")
    w("// (it tests bytes[1] == 1), so they are dead here and the byte-wise functions above run.")
    for name,gt,n,kind in types:
        w("//@ func %sSliceAsBytes" % name)
        w("//@   modifies alloc")
        w("//@   ensures len(result) == len(data)*%d && fresh(result)" % n)
        w("//@   ensures forall k int :: 0 <= k && k < len(data) ==> %s" % tobytes_facts(n,kind,"result","k","data[k]"))
        w("")
        w("//@ func BytesTo%sSlice" % name)
        w("//@   modifies alloc")
        w("//@   ensures len(result) == len(data)/%d && fresh(result)" % n)
        w("//@   ensures forall k int :: 0 <= k && k < len(data)/%d ==> %s" % (n, frombytes_fact(n,kind,"result","k","data")))
        w("")
    w("//@ func Uint8SliceAsBytes")
    w("//@   ensures result == data")
else:
    for name,gt,n,kind in types:
        w("//@ func %sSliceAsBytes" % name)
        w("//@   modifies alloc")
        w("//@   ensures len(result) == len(data)*%d && fresh(result)" % n)
        w("//@   ensures forall k int :: 0 <= k && k < len(data) ==> %s" % tobytes_facts(n,kind,"result","k","data[k]"))
        w("")
        w("//@ func BytesTo%sSlice" % name)
        w("//@   modifies alloc")
        w("//@   ensures len(result) == len(data)/%d && fresh(result)" % n)
        w("//@   ensures forall k int :: 0 <= k && k < len(data)/%d ==> %s" % (n, frombytes_fact(n,kind,"result","k","data")))
        w("")
    w("//@ func Uint8SliceAsBytes")
    w("//@   ensures result == data")
print("\n".join(out))
