package main

import (
	"flag"
	"fmt"
	"os"
	"runtime/pprof"
	"strings"
	"time"

	"vc/internal/vc"
)

func usage() {
	fmt.Fprintln(os.Stderr, `usage:
  vc check <Cxx> [--tier quick|thorough] [--repo /repo]
  vc func <pkgpath::func> [...]      debug: verify single functions and print every obligation
  vc replay <file>
  vc selftest [Cxx ...]`)
	os.Exit(2)
}

func main() {
	if len(os.Args) < 2 {
		usage()
	}
	switch os.Args[1] {
	case "check":
		os.Exit(vc.CmdCheck(os.Args[2:]))
	case "func":
		os.Exit(cmdFunc(os.Args[2:]))
	case "replay":
		os.Exit(vc.CmdReplay(os.Args[2:]))
	case "selftest":
		os.Exit(vc.CmdSelftest(os.Args[2:]))
	default:
		usage()
	}
}

func cmdFunc(args []string) int {
	fs := flag.NewFlagSet("func", flag.ExitOnError)
	repo := fs.String("repo", "/repo", "repository")
	verif := fs.String("verif", "/verif", "verif dir")
	timeout := fs.Int("timeout", 20, "solver timeout (s)")
	dump := fs.String("dump", "", "directory to write .smt2 files of failed obligations")
	pkgs := fs.String("pkgs", "./...", "package patterns (comma separated)")
	fs.Parse(args)
	t0 := time.Now()
	if pf := os.Getenv("VCPROF"); pf != "" {
		f, _ := os.Create(pf)
		pprof.StartCPUProfile(f)
		defer pprof.StopCPUProfile()
	}
	e, err := vc.Load(*repo, strings.Split(*pkgs, ","), nil)
	if err != nil {
		fmt.Fprintln(os.Stderr, err)
		return 2
	}
	if err := e.LoadContracts(*verif+"/contracts/mirror", *verif+"/contracts/trusted", *verif+"/spec"); err != nil {
		fmt.Fprintln(os.Stderr, err)
		return 2
	}
	for _, k := range fs.Args() {
		if strings.HasPrefix(k, "lemma:") {
			e.VerifyLemma(strings.TrimPrefix(k, "lemma:"))
			continue
		}
		if strings.HasPrefix(k, "structural:") {
			e.VerifyStructural(strings.TrimPrefix(k, "structural:"))
			continue
		}
		if !strings.Contains(k, "::") {
			fmt.Fprintln(os.Stderr, "function key must be pkgpath::name")
			return 2
		}
		if !strings.HasPrefix(k, "github.com/") && !strings.Contains(strings.SplitN(k, "::", 2)[0], ".") {
			k = vc.ModulePath + "/" + k
		}
		e.VerifyFunc(k)
	}
	fmt.Fprintf(os.Stderr, "generated %d obligations at %v\n", len(e.Obls), time.Since(t0))
	res := vc.SolveAll(e.Obls, *timeout, 16, 0, "")
	fmt.Fprintf(os.Stderr, "solved at %v\n", time.Since(t0))
	bad := 0
	for _, r := range res {
		mark := "ok  "
		if !r.Discharged() {
			mark = "FAIL"
			bad++
		}
		fmt.Printf("%s %-8s %-10s %6.2fs %s", mark, r.Status, r.Solver, r.Seconds, r.Obl.Name)
		if r.Obl.Where != "" {
			fmt.Printf("  @%s", r.Obl.Where)
		}
		fmt.Println()
		if !r.Discharged() {
			if r.Obl.Clause != "" {
				fmt.Printf("       clause: %s\n", r.Obl.Clause)
			}
			if r.Status == "failed" {
				fmt.Printf("       %s\n", r.Output)
			} else if r.Status == "sat" {
				fmt.Printf("       model: %s\n", strings.Join(vc.SortedModel(r.Model), ", "))
			} else {
				fmt.Printf("       %s\n", r.Output)
			}
			if *dump != "" && r.Script != "" {
				os.MkdirAll(*dump, 0o755)
				fn := *dump + "/" + sanitizeFile(r.Obl.Name) + ".smt2"
				os.WriteFile(fn, []byte(r.Script), 0o644)
				fmt.Printf("       script: %s\n", fn)
			}
		}
	}
	for _, n := range e.Notes {
		fmt.Println("note:", n)
	}
	fmt.Printf("%d obligations, %d failed\n", len(res), bad)
	if bad > 0 {
		return 1
	}
	return 0
}

func sanitizeFile(s string) string {
	r := strings.NewReplacer("/", "_", "*", "", "(", "", ")", "", "#", "-", ":", "-", " ", "_", "$", "_", "@", "_", "<", "le", ">", "gt", "=", "")
	return r.Replace(s)
}
