package main

import (
	"fmt"
	"os"

	"golang.org/x/tools/go/packages"
	"golang.org/x/tools/go/ssa"
	"golang.org/x/tools/go/ssa/ssautil"
)

func main() {
	cfg := &packages.Config{Mode: packages.LoadAllSyntax, Dir: "/repo", BuildFlags: []string{"-tags=verif"}}
	pkgs, err := packages.Load(cfg, os.Args[1:]...)
	if err != nil {
		panic(err)
	}
	prog, spkgs := ssautil.AllPackages(pkgs, ssa.GlobalDebug|ssa.BareInits)
	prog.Build()
	for _, p := range spkgs {
		fmt.Println(p)
	}
}
