package vc

// replayfam.go: replay families. A family turns the solver's counterexample for a failed
// obligation into an in-package Go test that runs the REAL code on the counterexample's inputs and
// checks the property statement with an oracle that is independent of the code under test (written
// from the CBE specification). The test is injected with `go test -overlay`; nothing is written to
// /repo. Families exist for functions whose inputs are scalars the model gives directly:
//   cbe-int    cbe.(*Encoder).OnPositiveInt / OnNegativeInt / OnInt      (C22, C01)
//   cbe-float  cbe.(*Encoder).OnFloat                                    (C22, C01)
//   uint-big   conversions.UintToBigInt                                  (C19)
//   rules-key  rules.(*Context).NotifyKey for integer carriers           (C12) - via events
// Every other obligation gets a replay FILE (obligation, clause, verdict, model, query) without a
// run, and its VIOLATION line ends with no-failing-input-found.

import (
	"fmt"
	"strconv"
	"strings"
)

func modelU64(m map[string]string, key string) (uint64, bool) {
	v, ok := m[key]
	if !ok {
		return 0, false
	}
	v = strings.TrimSpace(v)
	switch {
	case strings.HasPrefix(v, "#x"):
		x, err := strconv.ParseUint(v[2:], 16, 64)
		return x, err == nil
	case strings.HasPrefix(v, "#b"):
		x, err := strconv.ParseUint(v[2:], 2, 64)
		return x, err == nil
	case v == "true":
		return 1, true
	case v == "false":
		return 0, true
	}
	return 0, false
}

const cbeOracle = `
// oracle: the shortest CBE encoding of an integer (sign, magnitude), from the CBE specification
func vcShortestInt(neg bool, m uint64) []byte {
	le := func(v uint64, n int) []byte { b := make([]byte, n); for i := 0; i < n; i++ { b[i] = byte(v >> (8 * uint(i))) }; return b }
	switch {
	case neg && m == 0:
		return []byte{0x69, 0}
	case m <= 100:
		if neg { return []byte{byte(-int8(m))} }
		return []byte{byte(m)}
	case m <= 0xff:
		if neg { return append([]byte{0x69}, le(m, 1)...) }
		return append([]byte{0x68}, le(m, 1)...)
	case m <= 0xffff:
		if neg { return append([]byte{0x6b}, le(m, 2)...) }
		return append([]byte{0x6a}, le(m, 2)...)
	case m <= 0xffffffff:
		if neg { return append([]byte{0x6d}, le(m, 4)...) }
		return append([]byte{0x6c}, le(m, 4)...)
	case m <= 0xffffffffffff:
		n := 5
		if m > 0xffffffffff { n = 6 }
		t := byte(0x66)
		if neg { t = 0x67 }
		return append([]byte{t, byte(n)}, le(m, n)...)
	}
	if neg { return append([]byte{0x6f}, le(m, 8)...) }
	return append([]byte{0x6e}, le(m, 8)...)
}
`

func famCbeInt(prop string, pd *PropertyDef, r *Result, e *Engine) string {
	fn := r.Obl.Func
	var call, negExpr, magExpr string
	v, ok := modelU64(r.Model, "p:value")
	if !ok {
		return ""
	}
	switch fn {
	case "cbe.(*Encoder).OnPositiveInt":
		call, negExpr, magExpr = fmt.Sprintf("enc.OnPositiveInt(%d)", v), "false", fmt.Sprintf("uint64(%d)", v)
	case "cbe.(*Encoder).OnNegativeInt":
		call, negExpr, magExpr = fmt.Sprintf("enc.OnNegativeInt(%d)", v), "true", fmt.Sprintf("uint64(%d)", v)
	case "cbe.(*Encoder).OnInt":
		iv := int64(v)
		call = fmt.Sprintf("enc.OnInt(%d)", iv)
		if iv < 0 {
			negExpr, magExpr = "true", fmt.Sprintf("uint64(%d)", uint64(-iv))
		} else {
			negExpr, magExpr = "false", fmt.Sprintf("uint64(%d)", uint64(iv))
		}
	default:
		return ""
	}
	return `package cbe

import (
	"bytes"
	"testing"

	"github.com/kstenerud/go-concise-encoding/configuration"
)
` + cbeOracle + `
func TestVCReplay(t *testing.T) {
	enc := NewEncoder(configuration.New())
	var buf bytes.Buffer
	enc.PrepareToEncode(&buf)
	` + call + `
	want := vcShortestInt(` + negExpr + `, ` + magExpr + `)
	if !bytes.Equal(buf.Bytes(), want) {
		t.Errorf("counterexample reproduces: ` + call + ` wrote % x, the shortest encoding is % x", buf.Bytes(), want)
	}
}
`
}

func famCbeFloat(prop string, pd *PropertyDef, r *Result, e *Engine) string {
	if r.Obl.Func != "cbe.(*Encoder).OnFloat" {
		return ""
	}
	v, ok := modelU64(r.Model, "p:value")
	if !ok {
		return ""
	}
	return fmt.Sprintf(`package cbe

import (
	"bytes"
	"math"
	"testing"

	"github.com/kstenerud/go-concise-encoding/configuration"
	"github.com/kstenerud/go-concise-encoding/nullevent"
)

type vcFloatRecorder struct {
	nullevent.NullEventReceiver
	got []float64
}

func (r *vcFloatRecorder) OnFloat(v float64) { r.got = append(r.got, v) }

func TestVCReplay(t *testing.T) {
	x := math.Float64frombits(%#x)
	enc := NewEncoder(configuration.New())
	var buf bytes.Buffer
	enc.PrepareToEncode(&buf)
	enc.OnBeginDocument()
	enc.OnVersion(0)
	enc.OnFloat(x)
	enc.OnEndDocument()
	doc := buf.Bytes()
	// oracle 1: shortest float form (bfloat16 if exact, else float32 if exact, else float64)
	if !(math.IsNaN(x) || math.IsInf(x, 0) || x == 0) {
		f32 := float32(x)
		wantLen := 9
		if float64(f32) == x {
			wantLen = 5
			if math.Float32bits(f32)&0xffff == 0 {
				wantLen = 3
			}
		}
		if len(doc)-2 != wantLen {
			t.Errorf("counterexample reproduces: OnFloat(%%v) took %%d bytes (%% x), the shortest exact form takes %%d", x, len(doc)-2, doc[2:], wantLen)
		}
	}
	// oracle 2: decoding gives the value back bit for bit
	rec := &vcFloatRecorder{}
	if err := NewDecoder(configuration.New()).DecodeDocument(doc, rec); err != nil {
		t.Errorf("counterexample reproduces: document %% x written for %%v does not decode: %%v", doc, x, err)
	} else if !(math.IsNaN(x) || math.IsInf(x, 0) || x == 0) && (len(rec.got) != 1 || math.Float64bits(rec.got[0]) != math.Float64bits(x)) {
		t.Errorf("counterexample reproduces: %%v (%%#x) was written as %% x and read back as %%v", x, math.Float64bits(x), doc, rec.got)
	}
}
`, v)
}

func famUintBig(prop string, pd *PropertyDef, r *Result, e *Engine) string {
	if r.Obl.Func != "conversions.UintToBigInt" {
		return ""
	}
	v, ok := modelU64(r.Model, "p:value")
	if !ok {
		return ""
	}
	return fmt.Sprintf(`package conversions

import "testing"

func TestVCReplay(t *testing.T) {
	v := uint64(%d)
	b := UintToBigInt(v)
	if !b.IsUint64() || b.Uint64() != v {
		t.Errorf("counterexample reproduces: UintToBigInt(%%d) = %%v", v, b)
	}
}
`, v)
}

// builder-conv: builder.setXFromY(value, dst) for scalar sources. The destination's kind is a ghost
// function in the model, so the replay tries every destination kind of the target class with the
// model's source value and checks "exact or rejected" with math/big as the oracle.
func famBuilderConv(prop string, pd *PropertyDef, r *Result, e *Engine) string {
	fn := strings.TrimPrefix(r.Obl.Func, "builder.")
	var src, dsts, call, check string
	v, ok := modelU64(r.Model, "p:value")
	if !ok {
		return ""
	}
	ints := `[]interface{}{new(int8), new(int16), new(int32), new(int64), new(int)}`
	uints := `[]interface{}{new(uint8), new(uint16), new(uint32), new(uint64), new(uint)}`
	floats := `[]interface{}{new(float32), new(float64)}`
	switch fn {
	case "setIntFromInt":
		src, dsts, call = fmt.Sprintf("int64(%d)", int64(v)), ints, "setIntFromInt(src, dst)"
	case "setIntFromUint":
		src, dsts, call = fmt.Sprintf("uint64(%d)", v), ints, "setIntFromUint(src, dst)"
	case "setUintFromUint":
		src, dsts, call = fmt.Sprintf("uint64(%d)", v), uints, "setUintFromUint(src, dst)"
	case "setUintFromInt":
		src, dsts, call = fmt.Sprintf("int64(%d)", int64(v)), uints, "setUintFromInt(src, dst)"
	case "setFloatFromInt":
		src, dsts, call = fmt.Sprintf("int64(%d)", int64(v)), floats, "setFloatFromInt(src, dst)"
	case "setFloatFromUint":
		src, dsts, call = fmt.Sprintf("uint64(%d)", v), floats, "setFloatFromUint(src, dst)"
	case "setIntFromFloat":
		src, dsts, call = fmt.Sprintf("math.Float64frombits(%#x)", v), ints, "setIntFromFloat(src, dst)"
	case "setUintFromFloat":
		src, dsts, call = fmt.Sprintf("math.Float64frombits(%#x)", v), uints, "setUintFromFloat(src, dst)"
	default:
		return ""
	}
	_ = check
	return `package builder

import (
	"fmt"
	"math"
	"math/big"
	"reflect"
	"testing"
)

var _ = math.Pi

func vcExact(x interface{}) *big.Float {
	f := new(big.Float).SetPrec(200)
	switch v := x.(type) {
	case int64:
		return f.SetInt64(v)
	case uint64:
		return f.SetUint64(v)
	case float64:
		if math.IsNaN(v) || math.IsInf(v, 0) {
			return nil
		}
		return f.SetFloat64(v)
	}
	return nil
}

func vcStored(dst reflect.Value) *big.Float {
	f := new(big.Float).SetPrec(200)
	switch dst.Kind() {
	case reflect.Int, reflect.Int8, reflect.Int16, reflect.Int32, reflect.Int64:
		return f.SetInt64(dst.Int())
	case reflect.Uint, reflect.Uint8, reflect.Uint16, reflect.Uint32, reflect.Uint64:
		return f.SetUint64(dst.Uint())
	default:
		return f.SetFloat64(dst.Float())
	}
}

func TestVCReplay(t *testing.T) {
	src := ` + src + `
	for _, p := range ` + dsts + ` {
		dst := reflect.ValueOf(p).Elem()
		rejected := func() (r bool) {
			defer func() {
				if recover() != nil {
					r = true
				}
			}()
			` + call + `
			return false
		}()
		if rejected {
			continue
		}
		want := vcExact(src)
		if want == nil || vcStored(dst).Cmp(want) != 0 {
			t.Errorf("counterexample reproduces: ` + fn + `(%v) into %v stored %v without an error", fmt.Sprint(src), dst.Type(), dst.Interface())
		}
	}
}
`
}

func init() {
	replayFamilies = append(replayFamilies, famCbeInt, famCbeFloat, famUintBig, famBuilderConv)
}
