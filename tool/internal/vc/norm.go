package vc

// norm.go: linear normalisation of 64-bit index arithmetic in quantifier-free queries.
//
//  1. variables introduced by the generator that are defined by an equality assumption
//     (v = expr) are replaced by their definition;
//  2. sums are flattened and put into a canonical order (associativity/commutativity of bvadd);
//  3. in comparisons a < b / a <= b / a = b whose two sides provably do not wrap (every summand
//     has a known upper bound and the bounds add up to less than 2^62), common summands are
//     cancelled.
//
// 1 and 2 are equivalences of bit-vector arithmetic; 3 is an equivalence under the stated
// no-wrap side condition, which is established from upper bounds that are themselves
// assumptions of the query (atoms `t <= c`) or syntactic (ite trees with constant leaves).

import (
	"math/big"
	"sort"
)

type normalizer struct {
	defs   map[*Term]*Term
	ub     map[*Term]*big.Int
	memo   map[*Term]*Term
	linMem map[*Term]*linear
	pendingEqs [][2]*Term
}

type linear struct {
	c     *big.Int
	atoms map[*Term]int64
}

func newNormalizer(ground []*Term) *normalizer {
	n := &normalizer{defs: map[*Term]*Term{}, ub: map[*Term]*big.Int{}, memo: map[*Term]*Term{}, linMem: map[*Term]*linear{}}
	isGen := func(t *Term) bool {
		if t.Op != "var" || t.Sort != BV64 {
			return false
		}
		for _, r := range t.Name {
			if r == '!' {
				return true
			}
		}
		return false
	}
	var scan func(a *Term)
	scan = func(a *Term) {
		switch a.Op {
		case "and":
			for _, x := range a.Args {
				scan(x)
			}
		case "=":
			l, r := a.Args[0], a.Args[1]
			if isGen(l) && !mentions(r, l) {
				if _, dup := n.defs[l]; !dup {
					n.defs[l] = r
				}
			} else if isGen(r) && !mentions(l, r) {
				if _, dup := n.defs[r]; !dup {
					n.defs[r] = l
				}
			} else if l.Sort == BV64 {
				// a linear equation between sums: solve it for a generated variable that occurs once
				n.pendingEqs = append(n.pendingEqs, [2]*Term{l, r})
			}
		case "bvule":
			if a.Args[1].IsConst() {
				n.noteUB(a.Args[0], a.Args[1].Val)
			}
		case "bvult":
			if a.Args[1].IsConst() && a.Args[1].Val.Sign() > 0 {
				n.noteUB(a.Args[0], new(big.Int).Sub(a.Args[1].Val, big.NewInt(1)))
			}
		}
	}
	for _, a := range ground {
		scan(a)
	}
	// terms asserted non-negative as signed numbers (0 <= x): a signed bound x <= y with y below 2^63
	// then bounds x as an unsigned number too
	nonNeg := map[*Term]bool{}
	var scanNN func(a *Term)
	scanNN = func(a *Term) {
		switch a.Op {
		case "and":
			for _, x := range a.Args {
				scanNN(x)
			}
		case "bvsle", "bvslt":
			if a.Args[0].IsConst() && a.Args[0].Sort == BV64 && a.Args[0].Val.Cmp(bigPow2(63)) < 0 {
				nonNeg[a.Args[1]] = true
			}
		}
	}
	for _, a := range ground {
		scanNN(a)
	}
	// a <= b with b bounded bounds a (two rounds are enough for len <= cap <= const chains)
	for round := 0; round < 2; round++ {
		var rel func(a *Term)
		rel = func(a *Term) {
			switch a.Op {
			case "and":
				for _, x := range a.Args {
					rel(x)
				}
			case "bvsle", "bvslt":
				if nonNeg[a.Args[0]] && !a.Args[1].IsConst() {
					if u, ok := n.upper(a.Args[1]); ok && u.Cmp(bigPow2(63)) < 0 {
						n.noteUB(a.Args[0], u)
					}
				} else if nonNeg[a.Args[0]] && a.Args[1].IsConst() && a.Args[1].Val.Cmp(bigPow2(63)) < 0 {
					n.noteUB(a.Args[0], a.Args[1].Val)
				}
			case "bvule", "bvult":
				if !a.Args[1].IsConst() {
					if u, ok := n.upper(a.Args[1]); ok {
						n.noteUB(a.Args[0], u)
					}
				}
			}
		}
		for _, a := range ground {
			rel(a)
		}
	}
	// linear equations a1 + ... = b1 + ...: solved for a generated variable of coefficient one that
	// is not defined yet (an equivalence of bit-vector arithmetic: x + r = s  <=>  x = s - r)
	for _, eq := range n.pendingEqs {
		flat := func(t *Term, sign int64, acc map[*Term]int64, c *big.Int) {
			var rec func(t *Term, sign int64)
			rec = func(t *Term, sign int64) {
				switch {
				case t.IsConst():
					if sign > 0 {
						c.Add(c, t.Val)
					} else {
						c.Sub(c, t.Val)
					}
				case t.Op == "bvadd":
					for _, a := range t.Args {
						rec(a, sign)
					}
				case t.Op == "bvsub":
					rec(t.Args[0], sign)
					rec(t.Args[1], -sign)
				case t.Op == "bvneg":
					rec(t.Args[0], -sign)
				default:
					acc[t] += sign
				}
			}
			rec(t, sign)
		}
		acc := map[*Term]int64{}
		c := new(big.Int)
		flat(eq[0], 1, acc, c)
		flat(eq[1], -1, acc, c) // acc + c == 0
		var cand *Term
		for a, m := range acc {
			if (m == 1 || m == -1) && isGen(a) && n.defs[a] == nil {
				if cand == nil || a.ID > cand.ID {
					cand = a
				}
			}
		}
		if cand == nil {
			continue
		}
		// cand*m + rest + c == 0  =>  cand == -(rest + c)/m
		sign := int64(-1)
		if acc[cand] == -1 {
			sign = 1
		}
		l := &linear{c: new(big.Int), atoms: map[*Term]int64{}}
		for a, m := range acc {
			if a != cand && m != 0 {
				l.atoms[a] = sign * m
			}
		}
		if sign > 0 {
			l.c.Set(c)
		} else {
			l.c.Neg(c)
		}
		l.c.Mod(l.c, bigPow2(64))
		rhs := l.build()
		if !mentions(rhs, cand) {
			n.defs[cand] = rhs
		}
	}
	// cyclic definitions (v1 = v2 + x, v2 = v1 - x) are avoided by keeping only definitions whose
	// right-hand side does not (transitively) lead back
	var dvs []*Term
	for v := range n.defs {
		dvs = append(dvs, v)
	}
	sort.Slice(dvs, func(i, j int) bool { return dvs[i].ID < dvs[j].ID })
	for _, v := range dvs {
		if n.reaches(n.defs[v], v, map[*Term]bool{}) {
			delete(n.defs, v)
		}
	}
	return n
}

func (n *normalizer) reaches(t, v *Term, seen map[*Term]bool) bool {
	if t == v {
		return true
	}
	if seen[t] {
		return false
	}
	seen[t] = true
	if d, ok := n.defs[t]; ok && n.reaches(d, v, seen) {
		return true
	}
	for _, a := range t.Args {
		if n.reaches(a, v, seen) {
			return true
		}
	}
	return false
}

func (n *normalizer) noteUB(t *Term, c *big.Int) {
	if old, ok := n.ub[t]; !ok || c.Cmp(old) < 0 {
		n.ub[t] = c
	}
}

var two62 = new(big.Int).Lsh(big.NewInt(1), 62)

func (n *normalizer) upper(t *Term) (*big.Int, bool) {
	if b, ok := n.ub[t]; ok {
		return b, true
	}
	if v, ok := upperBoundConst(t); ok {
		return big.NewInt(v), true
	}
	if t.Op == "zero_extend" {
		w := t.Args[0].Sort.Width
		if w <= 32 {
			return new(big.Int).Sub(bigPow2(w), big.NewInt(1)), true
		}
	}
	return nil, false
}

// lin flattens a 64-bit term into constant + multiset of atoms (after substituting definitions).
func (n *normalizer) lin(t *Term) *linear {
	if l, ok := n.linMem[t]; ok {
		return l
	}
	l := &linear{c: new(big.Int), atoms: map[*Term]int64{}}
	var add func(t *Term, sign int64, depth int)
	add = func(t *Term, sign int64, depth int) {
		if t.IsConst() {
			if sign > 0 {
				l.c.Add(l.c, t.Val)
			} else {
				l.c.Sub(l.c, t.Val)
			}
			return
		}
		if d, ok := n.defs[t]; ok && depth < 64 {
			add(d, sign, depth+1)
			return
		}
		switch t.Op {
		case "bvadd":
			for _, a := range t.Args {
				add(a, sign, depth+1)
			}
			return
		case "bvsub":
			add(t.Args[0], sign, depth+1)
			add(t.Args[1], -sign, depth+1)
			return
		case "bvneg":
			add(t.Args[0], -sign, depth+1)
			return
		}
		a := n.rewrite(t)
		l.atoms[a] += sign
		if l.atoms[a] == 0 {
			delete(l.atoms, a)
		}
	}
	add(t, 1, 0)
	l.c.Mod(l.c, bigPow2(64))
	n.linMem[t] = l
	return l
}

func (l *linear) build() *Term {
	var as []*Term
	for a := range l.atoms {
		as = append(as, a)
	}
	sort.Slice(as, func(i, j int) bool {
		pi, pj := l.atoms[as[i]] > 0, l.atoms[as[j]] > 0
		if pi != pj {
			return pi // positive summands first, so that negatives become subtractions
		}
		return as[i].ID < as[j].ID
	})
	var t *Term
	for _, a := range as {
		m := l.atoms[a]
		for k := int64(0); k < abs64(m); k++ {
			if m > 0 {
				if t == nil {
					t = a
				} else {
					t = T.mk(&Term{Op: "bvadd", Args: []*Term{t, a}, Sort: BV64})
				}
			} else {
				if t == nil {
					t = BVNeg(a)
				} else {
					t = T.mk(&Term{Op: "bvsub", Args: []*Term{t, a}, Sort: BV64})
				}
			}
		}
	}
	c := BVConst(l.c, 64)
	if t == nil {
		return c
	}
	if l.c.Sign() == 0 {
		return t
	}
	return T.mk(&Term{Op: "bvadd", Args: []*Term{t, c}, Sort: BV64})
}

func abs64(x int64) int64 {
	if x < 0 {
		return -x
	}
	return x
}

// noWrapBound returns an upper bound of the (mathematical) value of l if all multiplicities are
// non-negative, every atom is bounded and the total stays below 2^62.
func (n *normalizer) noWrapBound(l *linear) (*big.Int, bool) {
	tot := new(big.Int).Set(l.c)
	if tot.Cmp(two62) >= 0 {
		return nil, false
	}
	for a, m := range l.atoms {
		if m < 0 {
			return nil, false
		}
		u, ok := n.upper(a)
		if !ok {
			return nil, false
		}
		tot.Add(tot, new(big.Int).Mul(u, big.NewInt(m)))
		if tot.Cmp(two62) >= 0 {
			return nil, false
		}
	}
	return tot, true
}

func (n *normalizer) cmp(op string, a, b *Term) *Term {
	la, lb := n.lin(a), n.lin(b)
	_, oka := n.noWrapBound(la)
	_, okb := n.noWrapBound(lb)
	if !oka || !okb {
		return nil
	}
	ra := &linear{c: new(big.Int).Set(la.c), atoms: map[*Term]int64{}}
	rb := &linear{c: new(big.Int).Set(lb.c), atoms: map[*Term]int64{}}
	for x, m := range la.atoms {
		ra.atoms[x] = m
	}
	for x, m := range lb.atoms {
		rb.atoms[x] = m
	}
	for x, m := range la.atoms {
		if k, ok := rb.atoms[x]; ok {
			c := m
			if k < c {
				c = k
			}
			ra.atoms[x] -= c
			rb.atoms[x] -= c
			if ra.atoms[x] == 0 {
				delete(ra.atoms, x)
			}
			if rb.atoms[x] == 0 {
				delete(rb.atoms, x)
			}
		}
	}
	if ra.c.Cmp(rb.c) >= 0 {
		ra.c.Sub(ra.c, rb.c)
		rb.c.SetInt64(0)
	} else {
		rb.c.Sub(rb.c, ra.c)
		ra.c.SetInt64(0)
	}
	x, y := ra.build(), rb.build()
	if op == "=" {
		return Eq(x, y)
	}
	return BVCmp(op, x, y)
}

// diff returns x - base as a canonical sum when every summand of base also occurs in x (so the
// residue has no negative part); nil otherwise.
func (n *normalizer) diff(x, base *Term) *Term {
	lx, lb := n.lin(x), n.lin(base)
	r := &linear{c: new(big.Int).Sub(lx.c, lb.c), atoms: map[*Term]int64{}}
	if r.c.Sign() < 0 {
		return nil
	}
	for a, m := range lx.atoms {
		r.atoms[a] = m
	}
	for a, m := range lb.atoms {
		r.atoms[a] -= m
		if r.atoms[a] < 0 {
			return nil
		}
		if r.atoms[a] == 0 {
			delete(r.atoms, a)
		}
	}
	for _, m := range r.atoms {
		if m < 0 {
			return nil
		}
	}
	return r.build()
}

// rewrite normalises a term bottom-up.
// smallNonNeg: t is a constant below 2^63 or has a known unsigned upper bound below 2^63.
func (n *normalizer) smallNonNeg(t *Term) bool {
	lim := bigPow2(63)
	if t.IsConst() {
		return t.Val.Cmp(lim) < 0
	}
	if u, ok := n.upper(t); ok {
		return u.Cmp(lim) < 0
	}
	return false
}

func (n *normalizer) rewrite(t *Term) *Term {
	if r, ok := n.memo[t]; ok {
		return r
	}
	var r *Term
	switch {
	case t.Op == "forall" || t.Op == "exists":
		r = t
	case t.Sort == BV64 && (t.Op == "bvadd" || t.Op == "bvsub" || t.Op == "bvneg" || (t.Op == "var" && n.defs[t] != nil)):
		r = n.lin(t).build()
	case (t.Op == "bvslt" || t.Op == "bvsle") && t.Args[0].Sort == BV64 && n.smallNonNeg(t.Args[0]) && n.smallNonNeg(t.Args[1]):
		// both sides are below 2^63 as unsigned numbers (lengths, offsets, bounded counters): the
		// signed comparison is the unsigned one, which the linear rules below understand
		op := "bvult"
		if t.Op == "bvsle" {
			op = "bvule"
		}
		r = n.rewrite(BVCmp(op, t.Args[0], t.Args[1]))
	case (t.Op == "bvult" || t.Op == "bvule") && t.Args[0].Sort == BV64:
		if c := n.cmp(t.Op, t.Args[0], t.Args[1]); c != nil {
			r = c
		} else if c := n.cmpExact(t.Op, t.Args[0], t.Args[1]); c != nil {
			r = c
		} else if c := n.cmpMixed(t.Op, t.Args[0], t.Args[1]); c != nil {
			r = c
		}
	case t.Op == "=" && t.Args[0].Sort == BV64:
		if c := n.cmp("=", t.Args[0], t.Args[1]); c != nil {
			r = c
		} else if c := n.cmpExact("=", t.Args[0], t.Args[1]); c != nil {
			r = c
		}
	}
	if r == nil {
		if len(t.Args) == 0 {
			r = t
		} else {
			args := make([]*Term, len(t.Args))
			ch := false
			for i, a := range t.Args {
				args[i] = n.rewrite(a)
				if args[i] != a {
					ch = true
				}
			}
			if ch {
				r = rebuild(t, args)
			} else {
				r = t
			}
		}
	}
	n.memo[t] = r
	return r
}

// NormalizeQuery rewrites all assertions of a quantifier-free query. Definitions that were
// substituted are kept as assertions (they are still true), so nothing is lost.
func NormalizeQuery(asserts []*Term) []*Term {
	n := newNormalizer(asserts)
	out := make([]*Term, 0, len(asserts))
	for _, a := range asserts {
		r := n.rewrite(a)
		if r == True {
			continue
		}
		out = append(out, r)
	}
	return out
}

// ---------------------------------------------------------------------------------------------
// exactness: when is the bit-vector value of a term equal to the mathematical value of its
// linear form (which may contain subtractions after definitions have been substituted)?

func signedConst(c *big.Int) *big.Int {
	if c.Cmp(bigPow2(63)) >= 0 {
		return new(big.Int).Sub(c, bigPow2(64))
	}
	return new(big.Int).Set(c)
}

// absBound bounds |sum| of a linear form; false when an atom has no known upper bound.
func (n *normalizer) absBound(l *linear) (*big.Int, bool) {
	tot := new(big.Int).Abs(signedConst(l.c))
	for a, m := range l.atoms {
		u, ok := n.upper(a)
		if !ok {
			return nil, false
		}
		tot.Add(tot, new(big.Int).Mul(u, big.NewInt(abs64(m))))
	}
	if tot.Cmp(two62) >= 0 {
		return nil, false
	}
	return tot, true
}

// exactBound: the bit-vector value of t equals the mathematical value of lin(t) and lies in [0, ub].
func (n *normalizer) exactBound(t *Term, depth int) (*big.Int, bool) {
	if depth > 64 {
		return nil, false
	}
	if t.IsConst() {
		if t.Val.Cmp(two62) < 0 {
			return t.Val, true
		}
		return nil, false
	}
	if d, ok := n.defs[t]; ok {
		// t is a variable with a known range that is defined by d: lin(d) = value(t) modulo 2^64,
		// |lin(d)| < 2^62 and 0 <= value(t) < 2^62, so the two are equal as integers
		if u, ok := n.ub[t]; ok && u.Cmp(two62) < 0 {
			if _, ok := n.absBound(n.lin(d)); ok {
				return u, true
			}
		}
		return n.exactBound(d, depth+1)
	}
	if t.Op == "bvadd" {
		tot := new(big.Int)
		for _, a := range t.Args {
			u, ok := n.exactBound(a, depth+1)
			if !ok {
				return nil, false
			}
			tot.Add(tot, u)
		}
		if tot.Cmp(two62) < 0 {
			return tot, true
		}
		return nil, false
	}
	if t.Op == "bvsub" {
		return nil, false
	}
	if u, ok := n.upper(t); ok && u.Cmp(two62) < 0 {
		return u, true
	}
	return nil, false
}

// cmpExact compares two exact terms as integers: negative summands are moved to the other side,
// common summands are cancelled, and the comparison is emitted on sums without subtraction.
func (n *normalizer) cmpExact(op string, a, b *Term) *Term {
	if _, ok := n.exactBound(a, 0); !ok {
		return nil
	}
	if _, ok := n.exactBound(b, 0); !ok {
		return nil
	}
	la, lb := n.lin(a), n.lin(b)
	if _, ok := n.absBound(la); !ok {
		return nil
	}
	if _, ok := n.absBound(lb); !ok {
		return nil
	}
	x := &linear{c: new(big.Int), atoms: map[*Term]int64{}}
	y := &linear{c: new(big.Int), atoms: map[*Term]int64{}}
	// a - b as one form
	d := map[*Term]int64{}
	for t, m := range la.atoms {
		d[t] += m
	}
	for t, m := range lb.atoms {
		d[t] -= m
	}
	for t, m := range d {
		if m > 0 {
			x.atoms[t] = m
		} else if m < 0 {
			y.atoms[t] = -m
		}
	}
	dc := new(big.Int).Sub(signedConst(la.c), signedConst(lb.c))
	if dc.Sign() >= 0 {
		x.c.Set(dc)
	} else {
		y.c.Neg(dc)
	}
	if _, ok := n.absBound(x); !ok {
		return nil
	}
	if _, ok := n.absBound(y); !ok {
		return nil
	}
	tx, ty := x.build(), y.build()
	if op == "=" {
		return Eq(tx, ty)
	}
	return BVCmp(op, tx, ty)
}

// posParts splits a linear form into its positive and negative parts P and N (both without
// subtraction), so that the form is P - N as an integer.
func posParts(l *linear) (p, nn *linear) {
	p = &linear{c: new(big.Int), atoms: map[*Term]int64{}}
	nn = &linear{c: new(big.Int), atoms: map[*Term]int64{}}
	for a, m := range l.atoms {
		if m > 0 {
			p.atoms[a] = m
		} else if m < 0 {
			nn.atoms[a] = -m
		}
	}
	sc := signedConst(l.c)
	if sc.Sign() >= 0 {
		p.c.Set(sc)
	} else {
		nn.c.Neg(sc)
	}
	return
}

func addLin(a, b *linear) *linear {
	r := &linear{c: new(big.Int).Add(a.c, b.c), atoms: map[*Term]int64{}}
	for t, m := range a.atoms {
		r.atoms[t] += m
	}
	for t, m := range b.atoms {
		r.atoms[t] += m
	}
	return r
}

// cmpPos compares two subtraction-free bounded sums as integers (common summands cancelled).
func (n *normalizer) cmpPos(op string, x, y *linear) *Term {
	if _, ok := n.absBound(x); !ok {
		return nil
	}
	if _, ok := n.absBound(y); !ok {
		return nil
	}
	rx := &linear{c: new(big.Int).Set(x.c), atoms: map[*Term]int64{}}
	ry := &linear{c: new(big.Int).Set(y.c), atoms: map[*Term]int64{}}
	for t, m := range x.atoms {
		rx.atoms[t] = m
	}
	for t, m := range y.atoms {
		ry.atoms[t] = m
	}
	for t, m := range x.atoms {
		if k, ok := ry.atoms[t]; ok {
			c := m
			if k < c {
				c = k
			}
			rx.atoms[t] -= c
			ry.atoms[t] -= c
			if rx.atoms[t] == 0 {
				delete(rx.atoms, t)
			}
			if ry.atoms[t] == 0 {
				delete(ry.atoms, t)
			}
		}
	}
	if rx.c.Cmp(ry.c) >= 0 {
		rx.c.Sub(rx.c, ry.c)
		ry.c.SetInt64(0)
	} else {
		ry.c.Sub(ry.c, rx.c)
		rx.c.SetInt64(0)
	}
	tx, ty := rx.build(), ry.build()
	if op == "=" {
		return Eq(tx, ty)
	}
	return BVCmp(op, tx, ty)
}

// cmpMixed handles a comparison between a "wrapped difference" W = (P - N) mod 2^64 (P, N bounded
// sums) and an exact bounded term Y < 2^62. If P < N the bit-vector value of W is at least
// 2^64 - 2^62, larger than every exact term, hence:
//   W <  Y  <=>  N <= P and P <  N + Y        Y <  W  <=>  P < N or N + Y <  P
//   W <= Y  <=>  N <= P and P <= N + Y        Y <= W  <=>  P < N or N + Y <= P
//   W =  Y  <=>  N <= P and P =  N + Y
func (n *normalizer) cmpMixed(op string, a, b *Term) *Term {
	la, lb := n.lin(a), n.lin(b)
	if _, ok := n.absBound(la); !ok {
		return nil
	}
	if _, ok := n.absBound(lb); !ok {
		return nil
	}
	_, ea := n.exactBound(a, 0)
	_, eb := n.exactBound(b, 0)
	neg := func(l *linear) bool {
		for _, m := range l.atoms {
			if m < 0 {
				return true
			}
		}
		return signedConst(l.c).Sign() < 0
	}
	switch {
	case !ea && eb && neg(la):
		p, nn := posParts(la)
		py, ny := posParts(lb)
		if len(ny.atoms) > 0 || ny.c.Sign() != 0 {
			// Y itself has a negative part but is exact: fold it in: W ? Y  with Y = py - ny
			// is handled by moving ny to the other side of each integer comparison
		}
		ge := n.cmpPos("bvule", nn, p) // N <= P
		if ge == nil {
			return nil
		}
		var main *Term
		switch op {
		case "bvult", "bvule":
			main = n.cmpPos(op, addLin(p, ny), addLin(nn, py)) // P + ny ? N + py
		case "=":
			main = n.cmpPos("=", addLin(p, ny), addLin(nn, py))
		}
		if main == nil {
			return nil
		}
		return And(ge, main)
	case ea && !eb && neg(lb):
		p, nn := posParts(lb)
		px, nx := posParts(la)
		lt := n.cmpPos("bvult", p, nn) // P < N
		if lt == nil {
			return nil
		}
		var main *Term
		switch op {
		case "bvult", "bvule":
			main = n.cmpPos(op, addLin(nn, px), addLin(p, nx)) // N + px ? P + nx
			if main == nil {
				return nil
			}
			return Or(lt, main)
		case "=":
			ge := n.cmpPos("bvule", nn, p)
			main = n.cmpPos("=", addLin(nn, px), addLin(p, nx))
			if ge == nil || main == nil {
				return nil
			}
			return And(ge, main)
		}
	}
	return nil
}
