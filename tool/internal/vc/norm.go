package vc

// norm.go: linear normalisation of 64-bit index arithmetic in quantifier-free queries.
//
//  1. variables introduced by the generator that are defined by an equality assumption
//     (v = expr) are replaced by their definition;
//  2. sums are flattened and put into a canonical order (associativity/commutativity of bvadd);
//  3. in comparisons a < b / a <= b / a = b whose two sides provably do not wrap (every summand
//     has a known upper bound and the bounds add up to less than 2^62), common summands are
//     cancelled.
//
// 1 and 2 are equivalences of bit-vector arithmetic; 3 is an equivalence under the stated
// no-wrap side condition, which is established from upper bounds that are themselves
// assumptions of the query (atoms `t <= c`) or syntactic (ite trees with constant leaves).

import (
	"math/big"
	"sort"
)

type normalizer struct {
	defs   map[*Term]*Term
	ub     map[*Term]*big.Int
	memo   map[*Term]*Term
	linMem map[*Term]*linear
}

type linear struct {
	c     *big.Int
	atoms map[*Term]int64
}

func newNormalizer(ground []*Term) *normalizer {
	n := &normalizer{defs: map[*Term]*Term{}, ub: map[*Term]*big.Int{}, memo: map[*Term]*Term{}, linMem: map[*Term]*linear{}}
	isGen := func(t *Term) bool {
		if t.Op != "var" || t.Sort != BV64 {
			return false
		}
		for _, r := range t.Name {
			if r == '!' {
				return true
			}
		}
		return false
	}
	var scan func(a *Term)
	scan = func(a *Term) {
		switch a.Op {
		case "and":
			for _, x := range a.Args {
				scan(x)
			}
		case "=":
			l, r := a.Args[0], a.Args[1]
			if isGen(l) && !mentions(r, l) {
				if _, dup := n.defs[l]; !dup {
					n.defs[l] = r
				}
			} else if isGen(r) && !mentions(l, r) {
				if _, dup := n.defs[r]; !dup {
					n.defs[r] = l
				}
			}
		case "bvule":
			if a.Args[1].IsConst() {
				n.noteUB(a.Args[0], a.Args[1].Val)
			}
		case "bvult":
			if a.Args[1].IsConst() && a.Args[1].Val.Sign() > 0 {
				n.noteUB(a.Args[0], new(big.Int).Sub(a.Args[1].Val, big.NewInt(1)))
			}
		}
	}
	for _, a := range ground {
		scan(a)
	}
	// a <= b with b bounded bounds a (two rounds are enough for len <= cap <= const chains)
	for round := 0; round < 2; round++ {
		var rel func(a *Term)
		rel = func(a *Term) {
			switch a.Op {
			case "and":
				for _, x := range a.Args {
					rel(x)
				}
			case "bvule", "bvult":
				if !a.Args[1].IsConst() {
					if u, ok := n.upper(a.Args[1]); ok {
						n.noteUB(a.Args[0], u)
					}
				}
			}
		}
		for _, a := range ground {
			rel(a)
		}
	}
	// cyclic definitions (v1 = v2 + x, v2 = v1 - x) are avoided by keeping only definitions whose
	// right-hand side does not (transitively) lead back
	for v := range n.defs {
		if n.reaches(n.defs[v], v, map[*Term]bool{}) {
			delete(n.defs, v)
		}
	}
	return n
}

func (n *normalizer) reaches(t, v *Term, seen map[*Term]bool) bool {
	if t == v {
		return true
	}
	if seen[t] {
		return false
	}
	seen[t] = true
	if d, ok := n.defs[t]; ok && n.reaches(d, v, seen) {
		return true
	}
	for _, a := range t.Args {
		if n.reaches(a, v, seen) {
			return true
		}
	}
	return false
}

func (n *normalizer) noteUB(t *Term, c *big.Int) {
	if old, ok := n.ub[t]; !ok || c.Cmp(old) < 0 {
		n.ub[t] = c
	}
}

var two62 = new(big.Int).Lsh(big.NewInt(1), 62)

func (n *normalizer) upper(t *Term) (*big.Int, bool) {
	if b, ok := n.ub[t]; ok {
		return b, true
	}
	if v, ok := upperBoundConst(t); ok {
		return big.NewInt(v), true
	}
	if t.Op == "zero_extend" {
		w := t.Args[0].Sort.Width
		if w <= 32 {
			return new(big.Int).Sub(bigPow2(w), big.NewInt(1)), true
		}
	}
	return nil, false
}

// lin flattens a 64-bit term into constant + multiset of atoms (after substituting definitions).
func (n *normalizer) lin(t *Term) *linear {
	if l, ok := n.linMem[t]; ok {
		return l
	}
	l := &linear{c: new(big.Int), atoms: map[*Term]int64{}}
	var add func(t *Term, sign int64, depth int)
	add = func(t *Term, sign int64, depth int) {
		if t.IsConst() {
			if sign > 0 {
				l.c.Add(l.c, t.Val)
			} else {
				l.c.Sub(l.c, t.Val)
			}
			return
		}
		if d, ok := n.defs[t]; ok && depth < 64 {
			add(d, sign, depth+1)
			return
		}
		switch t.Op {
		case "bvadd":
			for _, a := range t.Args {
				add(a, sign, depth+1)
			}
			return
		case "bvsub":
			add(t.Args[0], sign, depth+1)
			add(t.Args[1], -sign, depth+1)
			return
		}
		a := n.rewrite(t)
		l.atoms[a] += sign
		if l.atoms[a] == 0 {
			delete(l.atoms, a)
		}
	}
	add(t, 1, 0)
	l.c.Mod(l.c, bigPow2(64))
	n.linMem[t] = l
	return l
}

func (l *linear) build() *Term {
	var as []*Term
	for a := range l.atoms {
		as = append(as, a)
	}
	sort.Slice(as, func(i, j int) bool { return as[i].ID < as[j].ID })
	var t *Term
	for _, a := range as {
		m := l.atoms[a]
		for k := int64(0); k < abs64(m); k++ {
			if m > 0 {
				if t == nil {
					t = a
				} else {
					t = T.mk(&Term{Op: "bvadd", Args: []*Term{t, a}, Sort: BV64})
				}
			} else {
				if t == nil {
					t = BVNeg(a)
				} else {
					t = T.mk(&Term{Op: "bvsub", Args: []*Term{t, a}, Sort: BV64})
				}
			}
		}
	}
	c := BVConst(l.c, 64)
	if t == nil {
		return c
	}
	if l.c.Sign() == 0 {
		return t
	}
	return T.mk(&Term{Op: "bvadd", Args: []*Term{t, c}, Sort: BV64})
}

func abs64(x int64) int64 {
	if x < 0 {
		return -x
	}
	return x
}

// noWrapBound returns an upper bound of the (mathematical) value of l if all multiplicities are
// non-negative, every atom is bounded and the total stays below 2^62.
func (n *normalizer) noWrapBound(l *linear) (*big.Int, bool) {
	tot := new(big.Int).Set(l.c)
	if tot.Cmp(two62) >= 0 {
		return nil, false
	}
	for a, m := range l.atoms {
		if m < 0 {
			return nil, false
		}
		u, ok := n.upper(a)
		if !ok {
			return nil, false
		}
		tot.Add(tot, new(big.Int).Mul(u, big.NewInt(m)))
		if tot.Cmp(two62) >= 0 {
			return nil, false
		}
	}
	return tot, true
}

func (n *normalizer) cmp(op string, a, b *Term) *Term {
	la, lb := n.lin(a), n.lin(b)
	_, oka := n.noWrapBound(la)
	_, okb := n.noWrapBound(lb)
	if !oka || !okb {
		return nil
	}
	ra := &linear{c: new(big.Int).Set(la.c), atoms: map[*Term]int64{}}
	rb := &linear{c: new(big.Int).Set(lb.c), atoms: map[*Term]int64{}}
	for x, m := range la.atoms {
		ra.atoms[x] = m
	}
	for x, m := range lb.atoms {
		rb.atoms[x] = m
	}
	for x, m := range la.atoms {
		if k, ok := rb.atoms[x]; ok {
			c := m
			if k < c {
				c = k
			}
			ra.atoms[x] -= c
			rb.atoms[x] -= c
			if ra.atoms[x] == 0 {
				delete(ra.atoms, x)
			}
			if rb.atoms[x] == 0 {
				delete(rb.atoms, x)
			}
		}
	}
	if ra.c.Cmp(rb.c) >= 0 {
		ra.c.Sub(ra.c, rb.c)
		rb.c.SetInt64(0)
	} else {
		rb.c.Sub(rb.c, ra.c)
		ra.c.SetInt64(0)
	}
	x, y := ra.build(), rb.build()
	if op == "=" {
		return Eq(x, y)
	}
	return BVCmp(op, x, y)
}

// diff returns x - base as a canonical sum when every summand of base also occurs in x (so the
// residue has no negative part); nil otherwise.
func (n *normalizer) diff(x, base *Term) *Term {
	lx, lb := n.lin(x), n.lin(base)
	r := &linear{c: new(big.Int).Sub(lx.c, lb.c), atoms: map[*Term]int64{}}
	if r.c.Sign() < 0 {
		return nil
	}
	for a, m := range lx.atoms {
		r.atoms[a] = m
	}
	for a, m := range lb.atoms {
		r.atoms[a] -= m
		if r.atoms[a] < 0 {
			return nil
		}
		if r.atoms[a] == 0 {
			delete(r.atoms, a)
		}
	}
	for _, m := range r.atoms {
		if m < 0 {
			return nil
		}
	}
	return r.build()
}

// rewrite normalises a term bottom-up.
func (n *normalizer) rewrite(t *Term) *Term {
	if r, ok := n.memo[t]; ok {
		return r
	}
	var r *Term
	switch {
	case t.Op == "forall" || t.Op == "exists":
		r = t
	case t.Sort == BV64 && (t.Op == "bvadd" || t.Op == "bvsub" || (t.Op == "var" && n.defs[t] != nil)):
		r = n.lin(t).build()
	case (t.Op == "bvult" || t.Op == "bvule") && t.Args[0].Sort == BV64:
		if c := n.cmp(t.Op, t.Args[0], t.Args[1]); c != nil {
			r = c
		}
	case t.Op == "=" && t.Args[0].Sort == BV64:
		if c := n.cmp("=", t.Args[0], t.Args[1]); c != nil {
			r = c
		}
	}
	if r == nil {
		if len(t.Args) == 0 {
			r = t
		} else {
			args := make([]*Term, len(t.Args))
			ch := false
			for i, a := range t.Args {
				args[i] = n.rewrite(a)
				if args[i] != a {
					ch = true
				}
			}
			if ch {
				r = rebuild(t, args)
			} else {
				r = t
			}
		}
	}
	n.memo[t] = r
	return r
}

// NormalizeQuery rewrites all assertions of a quantifier-free query. Definitions that were
// substituted are kept as assertions (they are still true), so nothing is lost.
func NormalizeQuery(asserts []*Term) []*Term {
	n := newNormalizer(asserts)
	out := make([]*Term, 0, len(asserts))
	for _, a := range asserts {
		r := n.rewrite(a)
		if r == True {
			continue
		}
		out = append(out, r)
	}
	return out
}
