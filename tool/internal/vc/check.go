package vc

// check.go: the per-property driver: vc check Cxx --tier quick|thorough

import (
	"encoding/json"
	"flag"
	"fmt"
	"os"
	"path/filepath"
	"sort"
	"strconv"
	"strings"
	"time"
)

type PropertyDef struct {
	ID          string   `json:"id"`
	Packages    []string `json:"packages"`
	Funcs       []string `json:"funcs"`
	Lemmas      []string `json:"lemmas"`
	Decided     string   `json:"decided"`
	NotDecided  string   `json:"not_decided"`
	Assumptions []string `json:"assumptions"`
	Bounded     []string `json:"bounded"`
	Replay      string   `json:"replay_family"`
	Includes    []string `json:"includes"` // other property files whose funcs/lemmas are part of this one
	Structural  []string `json:"structural"` // names of structural checks (contract files: //@ structural NAME: ...)
}

type KnownFinding struct {
	Property   string `json:"property"`
	Obligation string `json:"obligation"` // exact obligation name, or prefix ending in '*'
	What       string `json:"what"`
	Status     string `json:"status"` // open | fixed
	Commit     string `json:"commit,omitempty"`
	Input      string `json:"failing_input,omitempty"`
	Detail     string `json:"detail,omitempty"` // if set: the exact failure text of the obligation this finding covers
}

func loadProperty(verifDir, id string, seen map[string]bool) (*PropertyDef, error) {
	data, err := os.ReadFile(filepath.Join(verifDir, "properties", id+".json"))
	if err != nil {
		return nil, err
	}
	var pd PropertyDef
	if err := json.Unmarshal(data, &pd); err != nil {
		return nil, fmt.Errorf("%s.json: %v", id, err)
	}
	seen[id] = true
	for _, inc := range pd.Includes {
		if seen[inc] {
			continue
		}
		sub, err := loadProperty(verifDir, inc, seen)
		if err != nil {
			return nil, err
		}
		pd.Funcs = append(pd.Funcs, sub.Funcs...)
		pd.Lemmas = append(pd.Lemmas, sub.Lemmas...)
		pd.Structural = append(pd.Structural, sub.Structural...)
		pd.Packages = append(pd.Packages, sub.Packages...)
		pd.Assumptions = append(pd.Assumptions, sub.Assumptions...)
	}
	pd.Funcs = uniq(pd.Funcs)
	pd.Lemmas = uniq(pd.Lemmas)
	pd.Packages = uniq(pd.Packages)
	pd.Assumptions = uniq(pd.Assumptions)
	return &pd, nil
}

func uniq(in []string) []string {
	seen := map[string]bool{}
	var out []string
	for _, s := range in {
		if !seen[s] {
			seen[s] = true
			out = append(out, s)
		}
	}
	return out
}

func fullKey(k string) string {
	if !strings.Contains(k, "::") {
		return k
	}
	pk := strings.SplitN(k, "::", 2)[0]
	if strings.HasPrefix(k, "github.com/") || strings.Contains(pk, ".") {
		return k
	}
	if !strings.Contains(pk, "/") && (pk == "math" || pk == "fmt" || pk == "io" || pk == "bytes" || pk == "strings") {
		return k
	}
	return ModulePath + "/" + k
}

type CheckOutcome struct {
	Results   []*Result
	Engine    *Engine
	Failed    []*Result
	WallS     float64
	LoadS     float64
	GenS      float64
	SolveS    float64
	Known     []string
	Violation []*Result
}

// RunProperty generates and discharges all obligations of a property against repoDir (+overlay).
func RunProperty(pd *PropertyDef, repoDir, verifDir string, timeoutS, seed int, overlay map[string][]byte) (*CheckOutcome, error) {
	t0 := time.Now()
	pkgs := pd.Packages
	if len(pkgs) == 0 {
		pkgs = []string{"./..."}
	}
	e, err := Load(repoDir, pkgs, overlay)
	if err != nil {
		return nil, err
	}
	if err := e.LoadContractsOverlay(filepath.Join(verifDir, "contracts/mirror"), filepath.Join(verifDir, "contracts/trusted"), filepath.Join(verifDir, "spec"), overlay); err != nil {
		return nil, err
	}
	out := &CheckOutcome{Engine: e}
	out.LoadS = time.Since(t0).Seconds()
	t1 := time.Now()
	for _, k := range pd.Funcs {
		e.VerifyFunc(fullKey(k))
	}
	for _, l := range pd.Lemmas {
		e.VerifyLemma(l)
	}
	for _, sname := range pd.Structural {
		e.VerifyStructural(sname)
	}
	e.checkConstGlobals()
	if len(e.Obls) == 0 {
		e.Obls = append(e.Obls, &Obligation{Name: pd.ID + "#vacuity:no-obligations", Kind: "cover", Failed: "the property generated no obligations"})
	}
	out.GenS = time.Since(t1).Seconds()
	t2 := time.Now()
	out.Results = SolveAll(e.Obls, timeoutS, 16, seed, "")
	out.SolveS = time.Since(t2).Seconds()
	// vacuity: every verified function needs at least one satisfiable exit
	covered := map[string]bool{}
	hasCover := map[string]bool{}
	for _, r := range out.Results {
		if r.Obl.Cover && r.Obl.Failed == "" {
			hasCover[r.Obl.Func] = true
			if r.Status == "sat" {
				covered[r.Obl.Func] = true
			}
		}
	}
	for _, r := range out.Results {
		if r.Obl.Cover {
			if r.Obl.Failed != "" {
				out.Failed = append(out.Failed, r)
			}
			continue
		}
		if !r.Discharged() {
			out.Failed = append(out.Failed, r)
		}
	}
	var fns []string
	for f := range hasCover {
		fns = append(fns, f)
	}
	sort.Strings(fns)
	for _, f := range fns {
		if !covered[f] {
			out.Failed = append(out.Failed, &Result{Obl: &Obligation{Name: f + "#vacuity:no-feasible-exit", Kind: "cover", Func: f},
				Status: "failed", Output: "no exit of the function is reachable under its preconditions (contradictory contract?)"})
		}
	}
	out.WallS = time.Since(t0).Seconds()
	return out, nil
}

func loadKnown(verifDir string) []KnownFinding {
	data, err := os.ReadFile(filepath.Join(verifDir, "known_findings.json"))
	if err != nil {
		return nil
	}
	var kf []KnownFinding
	if err := json.Unmarshal(data, &kf); err != nil {
		fmt.Fprintln(os.Stderr, "known_findings.json:", err)
		return nil
	}
	return kf
}

// matchKnown: an open finding matches a failed obligation by name and, when the finding records the
// exact failure (field "detail"), only if the obligation fails in exactly that way - a different
// failure of the same obligation (one more missing case, say) is a new violation.
func matchKnown(kf []KnownFinding, prop, obl, failure string) *KnownFinding {
	for i := range kf {
		k := &kf[i]
		if k.Property != prop || k.Status != "open" {
			continue
		}
		if k.Detail != "" && strings.TrimSpace(k.Detail) != strings.TrimSpace(failure) {
			continue
		}
		if k.Obligation == obl || (strings.HasSuffix(k.Obligation, "*") && strings.HasPrefix(obl, strings.TrimSuffix(k.Obligation, "*"))) {
			return k
		}
	}
	return nil
}

func CmdCheck(args []string) int {
	if len(args) < 1 {
		fmt.Fprintln(os.Stderr, "usage: vc check <Cxx> [--tier quick|thorough]")
		return 2
	}
	id := args[0]
	fs := flag.NewFlagSet("check", flag.ExitOnError)
	tier := fs.String("tier", envOr("VERIF_TIER", "quick"), "quick|thorough")
	repo := fs.String("repo", "/repo", "repository under verification")
	verif := fs.String("verif", "/verif", "verification directory")
	fs.Parse(args[1:])
	seed, _ := strconv.Atoi(os.Getenv("VERIF_SEED"))
	pd, err := loadProperty(*verif, id, map[string]bool{})
	if err != nil {
		fmt.Fprintln(os.Stderr, "cannot load property definition:", err)
		return 2
	}
	timeout := 90 // generous: an obligation that needs more than a few seconds here is a warning sign, but a slower machine must not turn it into a false alarm
	if *tier == "thorough" {
		timeout = 240
	}
	oc, err := RunProperty(pd, *repo, *verif, timeout, seed, nil)
	replayDir := filepath.Join(*verif, "evidence", "replays")
	os.MkdirAll(replayDir, 0o755)
	if err != nil {
		// the tree does not load (does not compile) or a contract file is malformed: undecidable
		path := filepath.Join(replayDir, id+"-load-error.txt")
		os.WriteFile(path, []byte("property "+id+": the verification conditions could not be generated\n\n"+err.Error()+"\n"), 0o644)
		fmt.Printf("VIOLATION property=%s replay=%s obligation=load no-failing-input-found\n", id, path)
		writeEvidence(*verif, pd, *tier, seed, nil, 1, []string{"load error: " + firstLines(err.Error(), 3)}, nil)
		return 1
	}
	kf := loadKnown(*verif)
	violations := 0
	printed := map[string]bool{}
	var knownLines []string
	selftest := map[string]interface{}{}
	for _, r := range oc.Failed {
		if k := matchKnown(kf, id, r.Obl.Name, r.Obl.Failed); k != nil {
			line := fmt.Sprintf("KNOWN-FINDING: property=%s %s [%s]", id, k.What, r.Obl.Name)
			dup := false
			for _, l := range knownLines {
				if l == line {
					dup = true
				}
			}
			if !dup {
				knownLines = append(knownLines, line)
				fmt.Println(line)
			}
			continue
		}
		violations++
		if printed[r.Obl.Name] {
			// the same obligation failing on another path: counted, reported once
			continue
		}
		printed[r.Obl.Name] = true
		path, confirmed := WriteReplay(*verif, *repo, id, pd, r, oc.Engine)
		suffix := ""
		if !confirmed {
			suffix = " no-failing-input-found"
		}
		fmt.Printf("VIOLATION property=%s replay=%s obligation=%s%s\n", id, path, r.Obl.Name, suffix)
	}
	if *tier == "thorough" {
		selftest = RunSelftest(*verif, *repo, id, pd, timeout)
		if n, ok := selftest["escaped"].(int); ok && n > 0 {
			// a mutant that escapes means the check lost strength: report, but it is not a violation of the property
			fmt.Printf("WARNING property=%s selftest: %d must-fail mutants escaped\n", id, n)
		}
	}
	writeEvidence(*verif, pd, *tier, seed, oc, violations, knownLines, selftest)
	nObl, nDis := countObls(oc)
	fmt.Printf("property %s tier=%s: %d obligations, %d discharged, %d violations, %d known findings, %.1fs (load %.1f, generate %.1f, solve %.1f)\n",
		id, *tier, nObl, nDis, violations, len(knownLines), oc.WallS, oc.LoadS, oc.GenS, oc.SolveS)
	// the slowest obligations, to watch the margin to the solver timeout (stderr: not part of the verdict)
	rs := append([]*Result(nil), oc.Results...)
	sort.Slice(rs, func(i, j int) bool { return rs[i].Seconds > rs[j].Seconds })
	for i := 0; i < len(rs) && i < 3; i++ {
		if rs[i].Seconds >= 2 {
			fmt.Fprintf(os.Stderr, "slow: %.1fs %s [%s]\n", rs[i].Seconds, rs[i].Obl.Name, rs[i].Solver)
		}
	}
	if violations > 0 {
		return 1
	}
	return 0
}

func envOr(k, d string) string {
	if v := os.Getenv(k); v != "" {
		return v
	}
	return d
}

func countObls(oc *CheckOutcome) (n, d int) {
	for _, r := range oc.Results {
		if r.Obl.Cover {
			continue
		}
		n++
		if r.Discharged() {
			d++
		}
	}
	return
}

func writeEvidence(verifDir string, pd *PropertyDef, tier string, seed int, oc *CheckOutcome, violations int, known []string, selftest map[string]interface{}) {
	ev := map[string]interface{}{
		"property_id": pd.ID,
		"tier":        tier,
		"seed":        seed,
		"level":       "proof",
		"violations":  violations,
	}
	cov := map[string]interface{}{
		"checker_cmd": fmt.Sprintf("/verif/bin/vc check %s --tier %s  (go/ssa VC generator over /repo's working tree; z3 5.1.0, cvc5 1.0, z3 4.8.12 raced)", pd.ID, tier),
	}
	assumptions := append([]string{}, pd.Assumptions...)
	if oc != nil {
		n, d := countObls(oc)
		// obligations that fail exactly as recorded in known_findings.json (open genuine defects) are
		// not part of what this run claims as proved: they are counted separately
		kf := loadKnown(verifDir)
		nKnown := 0
		for _, r := range oc.Results {
			if !r.Obl.Cover && !r.Discharged() && matchKnown(kf, pd.ID, r.Obl.Name, r.Obl.Failed) != nil {
				nKnown++
			}
		}
		cov["obligations"] = n - nKnown
		cov["discharged"] = d
		if nKnown > 0 {
			cov["obligations_failing_as_open_known_findings"] = nKnown
			cov["known_findings"] = known
		}
		bySolver := map[string]int{}
		byKind := map[string]int{}
		var solverS float64
		var per []map[string]interface{}
		covers, coverSat := 0, 0
		var samples []map[string]interface{}
		for _, r := range oc.Results {
			if r.Obl.Cover {
				covers++
				if r.Status == "sat" {
					coverSat++
				}
				continue
			}
			s := r.Solver
			if k := strings.Index(s, " "); k > 0 {
				s = s[:k]
			}
			bySolver[s]++
			byKind[r.Obl.Kind]++
			solverS += r.Seconds
			if len(per) < 4000 {
				per = append(per, map[string]interface{}{"name": r.Obl.Name, "kind": r.Obl.Kind, "where": r.Obl.Where, "status": r.Status,
					"solver": r.Solver, "seconds": round3(r.Seconds), "smt2_bytes": r.Size})
			}
		}
		// three samples: the first post obligation of three different functions
		seenFn := map[string]bool{}
		for _, r := range oc.Results {
			if r.Obl.Kind == "post" && !seenFn[r.Obl.Func] && len(samples) < 3 && r.Obl.Clause != "" {
				seenFn[r.Obl.Func] = true
				samples = append(samples, map[string]interface{}{"obligation": r.Obl.Name, "contract_clause": r.Obl.Clause, "where": r.Obl.Where,
					"path_assumptions": len(r.Obl.Assume), "result": r.Status, "solver": r.Solver})
			}
		}
		if len(samples) == 0 {
			for _, r := range oc.Results {
				if !r.Obl.Cover && len(samples) < 3 {
					samples = append(samples, map[string]interface{}{"obligation": r.Obl.Name, "where": r.Obl.Where, "result": r.Status, "solver": r.Solver})
				}
			}
		}
		var funcs []map[string]interface{}
		var names []string
		for n := range oc.Engine.FuncStats {
			names = append(names, n)
		}
		sort.Strings(names)
		for _, n := range names {
			st := oc.Engine.FuncStats[n]
			funcs = append(funcs, map[string]interface{}{"name": st.Name, "at": st.Pos, "paths": st.Paths})
		}
		cov["functions_under_contract"] = funcs
		cov["functions"] = len(funcs)
		cov["by_kind"] = byKind
		cov["discharged_by_back_end"] = bySolver
		cov["solver_time_s"] = round3(solverS)
		cov["covers_run"] = covers
		cov["covers_sat"] = coverSat
		cov["per_obligation"] = per
		cov["samples"] = samples
		cov["timing_s"] = map[string]interface{}{"load": round3(oc.LoadS), "generate": round3(oc.GenS), "solve": round3(oc.SolveS)}
		tb := []string{"T-GEN: the VC generator (/verif/tool), its SMT encoding of the Go subset, the spec functions in /verif/spec, the solvers",
			"T-SSA: golang.org/x/tools/go/ssa v0.29.0 translates the Go source faithfully"}
		var tu []string
		for k := range oc.Engine.TrustedUse {
			tu = append(tu, k)
		}
		sort.Strings(tu)
		for _, k := range tu {
			tb = append(tb, "assumed contract: "+k)
		}
		var in []string
		for k := range oc.Engine.Intrinsics {
			in = append(in, k)
		}
		sort.Strings(in)
		for _, k := range in {
			tb = append(tb, "built-in model (A-LIB): "+shortKey(k))
		}
		cov["trusted_base"] = tb
		var ab []string
		for k := range oc.Engine.Abstract {
			ab = append(ab, k)
		}
		sort.Strings(ab)
		cov["abstracted"] = ab
		var ai []string
		for k := range oc.Engine.AutoInlined {
			ai = append(ai, k)
		}
		sort.Strings(ai)
		cov["executed_in_place_without_contract"] = ai
		cov["notes"] = oc.Engine.Notes
		cov["bounded"] = pd.Bounded
		cov["decided"] = pd.Decided
		cov["not_decided"] = pd.NotDecided
		assumptions = append(assumptions,
			"A-ARCH: 64-bit little-endian target (int is 64 bits)",
			"A-SIZE: slices and strings handed to a function hold at most 2^36 elements; no slice exceeds 2^40; the output stream stays below 2^40 bytes",
			"A-RECV: method receivers are non-nil",
			"integers are bit-vectors with Go's wrap-around semantics (never mathematical integers); termination is proved only where a decreases clause is listed")
	} else {
		cov["obligations"] = 1
		cov["discharged"] = 0
		cov["trusted_base"] = []string{}
	}
	if len(known) > 0 {
		cov["known_findings_matched"] = known
	}
	if selftest != nil && len(selftest) > 0 {
		cov["selftest"] = selftest
	}
	ev["coverage"] = cov
	ev["assumptions"] = uniq(assumptions)
	if oc != nil {
		ev["wall_s"] = round3(oc.WallS)
	} else {
		ev["wall_s"] = 0.0
	}
	data, _ := json.MarshalIndent(ev, "", " ")
	os.MkdirAll(filepath.Join(verifDir, "evidence"), 0o755)
	os.WriteFile(filepath.Join(verifDir, "evidence", pd.ID+".json"), data, 0o644)
}

func round3(f float64) float64 { return float64(int(f*1000+0.5)) / 1000 }
