package vc

func CmdCheck(args []string) int    { return 2 }
func CmdReplay(args []string) int   { return 2 }
func CmdSelftest(args []string) int { return 2 }
