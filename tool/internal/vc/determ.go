package vc

// determ.go: deterministic (sorted) iteration wherever terms are created, so that the generated
// queries - and with them solver behaviour - are the same on every run.

import (
	"sort"

	"golang.org/x/tools/go/ssa"
)

func sortedKeysV(m map[string]Value) []string {
	ks := make([]string, 0, len(m))
	for k := range m {
		ks = append(ks, k)
	}
	sort.Strings(ks)
	return ks
}

func sortedKeysB(m map[string]bool) []string {
	ks := make([]string, 0, len(m))
	for k := range m {
		ks = append(ks, k)
	}
	sort.Strings(ks)
	return ks
}

func sortedGlobals(m map[*ssa.Global]Value) []*ssa.Global {
	gs := make([]*ssa.Global, 0, len(m))
	for g := range m {
		gs = append(gs, g)
	}
	sort.Slice(gs, func(i, j int) bool { return globKey(gs[i]) < globKey(gs[j]) })
	return gs
}

func sortedGlobalSet(m map[*ssa.Global]bool) []*ssa.Global {
	gs := make([]*ssa.Global, 0, len(m))
	for g := range m {
		gs = append(gs, g)
	}
	sort.Slice(gs, func(i, j int) bool { return globKey(gs[i]) < globKey(gs[j]) })
	return gs
}

func (e *Engine) havocHeaps(st *State, pred func(k string) bool) {
	for _, k := range sortedKeysV(st.Heaps) {
		if pred == nil || pred(k) {
			k := k
			st.Heaps[k] = mapLeaves(st.Heaps[k], func(t *Term) *Term { return Fresh("hv:"+k, t.Sort) })
		}
	}
}

func (e *Engine) havocMems(st *State) {
	for _, k := range sortedKeysV(st.Mems) {
		k := k
		st.Mems[k] = mapLeaves(st.Mems[k], func(t *Term) *Term { return Fresh("hv:"+k, t.Sort) })
	}
}

func (e *Engine) havocGhosts(st *State, pred func(k string) bool, prefix string) {
	for _, k := range sortedKeysV(st.Ghost) {
		if pred(k) {
			k := k
			st.Ghost[k] = mapLeaves(st.Ghost[k], func(t *Term) *Term { return Fresh(prefix+k, t.Sort) })
		}
	}
}

func (e *Engine) havocGlobs(st *State) {
	for _, g := range sortedGlobals(st.Globs) {
		if e.isConstGlobal(g) {
			continue
		}
		v := st.Globs[g]
		if _, ok := v.(*OpaqueV); ok {
			continue
		}
		st.Globs[g] = mapLeaves(v, func(t *Term) *Term { return Fresh("hv:glob", t.Sort) })
	}
}
