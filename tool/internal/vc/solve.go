package vc

// solve.go: discharge obligations with z3 4.8.12, z3 5.1.0 (z3-new) and cvc5, raced.

import (
	"bytes"
	"context"
	"fmt"
	"os"
	"os/exec"
	"regexp"
	"sort"
	"strings"
	"sync"
	"time"
)

type Result struct {
	Obl     *Obligation
	Status  string // unsat | sat | unknown | timeout | failed | trivial
	Solver  string
	Seconds float64
	Model   map[string]string
	Output  string
	Size    int
	Script  string
}

func (r *Result) Discharged() bool {
	if r.Obl.Cover {
		return r.Status == "sat"
	}
	return r.Status == "unsat" || r.Status == "trivial"
}

type solverSpec struct {
	name string
	args func(timeoutS int) []string
}

var solvers = []solverSpec{
	{"z3-5.1.0", func(t int) []string { return []string{"z3-new", "-in", "-smt2", fmt.Sprintf("-T:%d", t)} }},
	{"cvc5-1.0", func(t int) []string {
		return []string{"cvc5", "--lang", "smt2", fmt.Sprintf("--tlimit=%d", t*1000), "--produce-models", "-"}
	}},
	{"z3-4.8.12", func(t int) []string { return []string{"z3", "-in", "-smt2", fmt.Sprintf("-T:%d", t)} }},
}

func runSolver(ctx context.Context, sp solverSpec, script string, timeoutS int) (status, out string, secs float64) {
	args := sp.args(timeoutS)
	cctx, cancel := context.WithTimeout(ctx, time.Duration(timeoutS+2)*time.Second)
	defer cancel()
	cmd := exec.CommandContext(cctx, args[0], args[1:]...)
	cmd.Stdin = strings.NewReader(script)
	var ob bytes.Buffer
	cmd.Stdout = &ob
	cmd.Stderr = &ob
	t0 := time.Now()
	_ = cmd.Run()
	secs = time.Since(t0).Seconds()
	out = ob.String()
	// the verdict is the first line that is one; solvers may print "unsupported"/"success" for options
	first := ""
	for _, ln := range strings.Split(out, "\n") {
		ln = strings.TrimSpace(ln)
		if ln == "sat" || ln == "unsat" || ln == "unknown" || ln == "timeout" {
			first = ln
			break
		}
		if ln != "" && ln != "unsupported" && ln != "success" {
			first = ln
			break
		}
	}
	switch first {
	case "sat", "unsat", "unknown":
		status = first
	case "timeout":
		status = "timeout"
	default:
		if cctx.Err() != nil {
			status = "timeout"
		} else if strings.Contains(out, "timeout") || strings.Contains(out, "interrupted") {
			status = "timeout"
		} else {
			status = "error"
		}
	}
	return
}

// SolveAll discharges all obligations with a worker pool. seed varies solver random seeds.
func SolveAll(obls []*Obligation, timeoutS int, workers int, seed int, prelude string) []*Result {
	res := make([]*Result, len(obls))
	type job struct{ i int }
	jobs := make(chan job)
	var wg sync.WaitGroup
	var mu sync.Mutex
	cache := map[string]*Result{}
	coverDone := map[string]bool{}
	for w := 0; w < workers; w++ {
		wg.Add(1)
		go func() {
			defer wg.Done()
			for j := range jobs {
				o := obls[j.i]
				if o.Cover {
					mu.Lock()
					done := coverDone[o.Func]
					mu.Unlock()
					if done {
						res[j.i] = &Result{Obl: o, Status: "sat", Solver: "skipped (function already covered)"}
						continue
					}
				}
				r := solveOne(o, timeoutS, seed, prelude, &mu, cache)
				if o.Cover && r.Status == "sat" {
					mu.Lock()
					coverDone[o.Func] = true
					mu.Unlock()
				}
				res[j.i] = r
			}
		}()
	}
	// syntactic discharge and grouping of obligations that share a path condition
	groups := map[string][]int{}
	var order []string
	for i, o := range obls {
		if o.Failed != "" || o.Cover {
			continue
		}
		if o.Kind == "structural" {
			res[i] = &Result{Obl: o, Status: "trivial", Solver: "enumeration of SSA instructions"}
			continue
		}
		if syntacticallyTrue(o) {
			res[i] = &Result{Obl: o, Status: "trivial", Solver: "syntactic (goal is among the assumptions)"}
			continue
		}
		k := pcKey(o.Assume)
		if _, ok := groups[k]; !ok {
			order = append(order, k)
		}
		groups[k] = append(groups[k], i)
	}
	// combined queries first (one per group with more than one member)
	type gjob struct{ idx []int }
	gjobs := make(chan gjob)
	var gwg sync.WaitGroup
	for w := 0; w < workers; w++ {
		gwg.Add(1)
		go func() {
			defer gwg.Done()
			for g := range gjobs {
				mu.Lock()
				var goals []*Term
				for _, i := range g.idx {
					goals = append(goals, obls[i].Goal)
				}
				comb := &Obligation{Name: "combined", Assume: obls[g.idx[0]].Assume, Goal: And(goals...)}
				mu.Unlock()
				r := solveOne(comb, timeoutS, seed, prelude, &mu, cache)
				if r.Status == "unsat" || r.Status == "trivial" {
					for _, i := range g.idx {
						c := *r
						c.Obl = obls[i]
						c.Solver = r.Solver + fmt.Sprintf(" [with %d others on the same path]", len(g.idx)-1)
						c.Seconds = r.Seconds / float64(len(g.idx))
						res[i] = &c
					}
				}
			}
		}()
	}
	for _, k := range order {
		if len(groups[k]) > 1 {
			gjobs <- gjob{groups[k]}
		}
	}
	close(gjobs)
	gwg.Wait()
	for i := range obls {
		if res[i] == nil {
			jobs <- job{i}
		}
	}
	close(jobs)
	wg.Wait()
	return res
}

func pcKey(as []*Term) string {
	var sb strings.Builder
	for _, a := range as {
		fmt.Fprintf(&sb, "%d,", a.ID)
	}
	return sb.String()
}

// syntacticallyTrue: the goal (or each conjunct / some disjunct of it) occurs among the assumptions.
func syntacticallyTrue(o *Obligation) bool {
	if o.Goal == nil {
		return false
	}
	set := map[*Term]bool{}
	for _, a := range o.Assume {
		if a.Op == "and" {
			for _, x := range a.Args {
				set[x] = true
			}
		}
		set[a] = true
	}
	var holds func(g *Term) bool
	holds = func(g *Term) bool {
		if g == True || set[g] {
			return true
		}
		switch g.Op {
		case "and":
			for _, x := range g.Args {
				if !holds(x) {
					return false
				}
			}
			return true
		case "or":
			for _, x := range g.Args {
				if holds(x) {
					return true
				}
			}
		}
		return false
	}
	return holds(o.Goal)
}

func solveOne(o *Obligation, timeoutS, seed int, prelude string, mu *sync.Mutex, cache map[string]*Result) *Result {
	if o.Failed != "" {
		return &Result{Obl: o, Status: "failed", Output: o.Failed}
	}
	if o.Kind == "structural" && o.Goal == True {
		return &Result{Obl: o, Status: "trivial", Solver: "enumeration of SSA instructions"}
	}
	if o.Goal == True && !o.Cover {
		return &Result{Obl: o, Status: "trivial", Solver: "syntactic"}
	}
	sc := &Script{Prelude: prelude}
	// stage A: quantifier-free part of the assumptions only (dropping assumptions is sound for
	// refutation queries; for covers it checks the ground part of the path condition)
	var ground []*Term
	dropped := 0
	qmemo := map[*Term]bool{}
	for _, a := range o.Assume {
		if hasQuant(a, qmemo) {
			dropped++
		} else {
			ground = append(ground, a)
		}
	}
	gq := !o.Cover && hasQuant(o.Goal, qmemo)
	if dropped > 0 || gq {
		mu.Lock()
		qf, g, ninst, ok := Instantiate(o.Assume, o.Goal, o.Cover)
		var gs string
		if ok {
			ga := &Script{Prelude: prelude, Asserts: qf}
			if !o.Cover {
				ga.Asserts = append(append([]*Term(nil), qf...), negateSplit(g)...)
			}
			if os.Getenv("VC_NOCPROP") == "" {
				ga.Asserts = ConstProp(ga.Asserts)
			}
			if os.Getenv("VC_NONORM") == "" {
				ga.Asserts = NormalizeQuery(ga.Asserts)
			}
			gs = ga.Render("ALL", false)
		}
		mu.Unlock()
		if ok {
			tag := fmt.Sprintf(" (quantifier-free: %d instances)", ninst)
			qt := min(timeoutS, 30)
			if o.Name == "combined" {
				qt = min(timeoutS, 5)
			}
			st, out, secs, who := raceQF(gs, qt)
			if who != "" && who != solvers[0].name {
				tag = " [" + who + "]" + tag
			}
			if o.Name == "combined" && st != "unsat" {
				return &Result{Obl: o, Status: "unknown", Solver: "combined attempt abandoned", Seconds: secs}
			}
			if d := os.Getenv("VCDUMP"); d != "" && secs > 2 {
				os.MkdirAll(d, 0o755)
				os.WriteFile(fmt.Sprintf("%s/qf-%s-%d.smt2", d, sanitize(o.Name), len(gs)), []byte(gs), 0o644)
			}
			if st == "unsat" && !o.Cover {
				return &Result{Obl: o, Status: "unsat", Solver: solvers[0].name + tag, Seconds: secs, Output: out, Size: len(gs)}
			}
			if o.Cover && st == "sat" {
				return &Result{Obl: o, Status: "sat", Solver: solvers[0].name + tag, Seconds: secs, Output: out, Size: len(gs)}
			}
		}
	}
	_ = ground
	if o.Name == "combined" && (dropped > 0 || gq) {
		return &Result{Obl: o, Status: "unknown", Solver: "combined attempt abandoned"}
	}
	sc.Asserts = append(sc.Asserts, o.Assume...)
	if !o.Cover {
		mu.Lock()
		sc.Asserts = append(sc.Asserts, Not(o.Goal))
		mu.Unlock()
	}
	seen := map[string]bool{}
	for _, v := range o.Vars {
		if v.T.Op == "var" && !seen[v.T.Name] {
			seen[v.T.Name] = true
			sc.GetVals = append(sc.GetVals, v.T)
		}
	}
	mu.Lock()
	script := sc.Render("ALL", true)
	mu.Unlock()
	if seed != 0 {
		// The seed is deliberately NOT passed to the solvers: a proof obligation has no sampling to
		// seed, and a solver's random seed only moves its heuristics (an obligation decided in 0.1 s
		// with the default seed timed out with seed 1). It is recorded in the evidence file only.
		_ = seed
	}
	key := script
	mu.Lock()
	if r, ok := cache[key]; ok {
		mu.Unlock()
		c := *r
		c.Obl = o
		return &c
	}
	mu.Unlock()
	r := race(script, timeoutS)
	r.Obl = o
	r.Size = len(script)
	r.Script = script
	if r.Status == "sat" {
		r.Model = parseModel(r.Output)
	}
	mu.Lock()
	cache[key] = r
	mu.Unlock()
	return r
}

// race: stage 1 z3-new alone (short); stage 2 all three concurrently, first definitive answer wins.
func race(script string, timeoutS int) *Result {
	t0 := time.Now()
	short := 3
	if timeoutS < short {
		short = timeoutS
	}
	st, out, _ := runSolver(context.Background(), solvers[0], script, short)
	if st == "sat" || st == "unsat" {
		return &Result{Status: st, Solver: solvers[0].name, Seconds: time.Since(t0).Seconds(), Output: out}
	}
	ctx, cancel := context.WithCancel(context.Background())
	defer cancel()
	type ans struct {
		st, out, name string
	}
	ch := make(chan ans, len(solvers))
	for _, sp := range solvers {
		sp := sp
		go func() {
			s, o, _ := runSolver(ctx, sp, script, timeoutS)
			ch <- ans{s, o, sp.name}
		}()
	}
	var last ans
	var outs []string
	worst := "unknown"
	for range solvers {
		a := <-ch
		if a.st == "sat" || a.st == "unsat" {
			cancel()
			return &Result{Status: a.st, Solver: a.name, Seconds: time.Since(t0).Seconds(), Output: a.out}
		}
		if a.st == "timeout" {
			worst = "timeout"
		}
		outs = append(outs, a.name+": "+firstLines(a.out, 3))
		last = a
	}
	_ = last
	return &Result{Status: worst, Solver: "none", Seconds: time.Since(t0).Seconds(), Output: strings.Join(outs, "\n")}
}

// raceQF runs z3 5.1.0 and cvc5 concurrently on a quantifier-free query; the first definitive
// answer wins.
func raceQF(script string, timeoutS int) (status, out string, secs float64, who string) {
	t0 := time.Now()
	// most queries are decided by z3 within a second: try it alone first
	if s, o, _ := runSolver(context.Background(), solvers[0], script, min(timeoutS, 3)); s == "sat" || s == "unsat" {
		return s, o, time.Since(t0).Seconds(), solvers[0].name
	}
	ctx, cancel := context.WithCancel(context.Background())
	defer cancel()
	type ans struct{ st, out, name string }
	ch := make(chan ans, 2)
	for _, sp := range solvers[:2] {
		sp := sp
		go func() {
			s, o, _ := runSolver(ctx, sp, script, timeoutS)
			ch <- ans{s, o, sp.name}
		}()
	}
	status = "unknown"
	for i := 0; i < 2; i++ {
		a := <-ch
		if a.st == "sat" || a.st == "unsat" {
			return a.st, a.out, time.Since(t0).Seconds(), a.name
		}
		if a.st == "timeout" {
			status = "timeout"
		}
		out = a.out
	}
	return status, out, time.Since(t0).Seconds(), ""
}

func firstLines(s string, n int) string {
	ls := strings.Split(strings.TrimSpace(s), "\n")
	if len(ls) > n {
		ls = ls[:n]
	}
	return strings.Join(ls, " | ")
}

var modelPair = regexp.MustCompile(`\(\s*(\|[^|]*\||[^\s()]+)\s+(#x[0-9a-fA-F]+|#b[01]+|true|false)\s*\)`)

func parseModel(out string) map[string]string {
	m := map[string]string{}
	for _, mt := range modelPair.FindAllStringSubmatch(out, -1) {
		m[strings.Trim(mt[1], "|")] = mt[2]
	}
	return m
}

func SortedModel(m map[string]string) []string {
	var ks []string
	for k := range m {
		ks = append(ks, k)
	}
	sort.Strings(ks)
	var out []string
	for _, k := range ks {
		out = append(out, k+" = "+m[k])
	}
	return out
}

func hasQuant(t *Term, memo map[*Term]bool) bool {
	if v, ok := memo[t]; ok {
		return v
	}
	r := t.Op == "forall" || t.Op == "exists"
	if !r {
		for _, a := range t.Args {
			if hasQuant(a, memo) {
				r = true
				break
			}
		}
	}
	memo[t] = r
	return r
}
