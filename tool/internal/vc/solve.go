package vc

// solve.go: discharge obligations with z3 4.8.12, z3 5.1.0 (z3-new) and cvc5, raced.

import (
	"bytes"
	"context"
	"fmt"
	"os/exec"
	"regexp"
	"sort"
	"strings"
	"sync"
	"time"
)

type Result struct {
	Obl     *Obligation
	Status  string // unsat | sat | unknown | timeout | failed | trivial
	Solver  string
	Seconds float64
	Model   map[string]string
	Output  string
	Size    int
	Script  string
}

func (r *Result) Discharged() bool {
	if r.Obl.Cover {
		return r.Status == "sat"
	}
	return r.Status == "unsat" || r.Status == "trivial"
}

type solverSpec struct {
	name string
	args func(timeoutS int) []string
}

var solvers = []solverSpec{
	{"z3-5.1.0", func(t int) []string { return []string{"z3-new", "-in", "-smt2", fmt.Sprintf("-T:%d", t)} }},
	{"cvc5-1.0", func(t int) []string {
		return []string{"cvc5", "--lang", "smt2", fmt.Sprintf("--tlimit=%d", t*1000), "--produce-models", "-"}
	}},
	{"z3-4.8.12", func(t int) []string { return []string{"z3", "-in", "-smt2", fmt.Sprintf("-T:%d", t)} }},
}

func runSolver(ctx context.Context, sp solverSpec, script string, timeoutS int) (status, out string, secs float64) {
	args := sp.args(timeoutS)
	cctx, cancel := context.WithTimeout(ctx, time.Duration(timeoutS+2)*time.Second)
	defer cancel()
	cmd := exec.CommandContext(cctx, args[0], args[1:]...)
	cmd.Stdin = strings.NewReader(script)
	var ob bytes.Buffer
	cmd.Stdout = &ob
	cmd.Stderr = &ob
	t0 := time.Now()
	_ = cmd.Run()
	secs = time.Since(t0).Seconds()
	out = ob.String()
	first := strings.TrimSpace(strings.SplitN(out, "\n", 2)[0])
	switch first {
	case "sat", "unsat", "unknown":
		status = first
	case "timeout":
		status = "timeout"
	default:
		if cctx.Err() != nil {
			status = "timeout"
		} else if strings.Contains(out, "timeout") || strings.Contains(out, "interrupted") {
			status = "timeout"
		} else {
			status = "error"
		}
	}
	return
}

// SolveAll discharges all obligations with a worker pool. seed varies solver random seeds.
func SolveAll(obls []*Obligation, timeoutS int, workers int, seed int, prelude string) []*Result {
	res := make([]*Result, len(obls))
	type job struct{ i int }
	jobs := make(chan job)
	var wg sync.WaitGroup
	var mu sync.Mutex
	cache := map[string]*Result{}
	coverDone := map[string]bool{}
	for w := 0; w < workers; w++ {
		wg.Add(1)
		go func() {
			defer wg.Done()
			for j := range jobs {
				o := obls[j.i]
				if o.Cover {
					mu.Lock()
					done := coverDone[o.Func]
					mu.Unlock()
					if done {
						res[j.i] = &Result{Obl: o, Status: "sat", Solver: "skipped (function already covered)"}
						continue
					}
				}
				r := solveOne(o, timeoutS, seed, prelude, &mu, cache)
				if o.Cover && r.Status == "sat" {
					mu.Lock()
					coverDone[o.Func] = true
					mu.Unlock()
				}
				res[j.i] = r
			}
		}()
	}
	for i := range obls {
		jobs <- job{i}
	}
	close(jobs)
	wg.Wait()
	return res
}

func solveOne(o *Obligation, timeoutS, seed int, prelude string, mu *sync.Mutex, cache map[string]*Result) *Result {
	if o.Failed != "" {
		return &Result{Obl: o, Status: "failed", Output: o.Failed}
	}
	if o.Goal == True && !o.Cover {
		return &Result{Obl: o, Status: "trivial", Solver: "syntactic"}
	}
	sc := &Script{Prelude: prelude}
	sc.Asserts = append(sc.Asserts, o.Assume...)
	if !o.Cover {
		sc.Asserts = append(sc.Asserts, Not(o.Goal))
	}
	seen := map[string]bool{}
	for _, v := range o.Vars {
		if v.T.Op == "var" && !seen[v.T.Name] {
			seen[v.T.Name] = true
			sc.GetVals = append(sc.GetVals, v.T)
		}
	}
	mu.Lock()
	script := sc.Render("ALL", true)
	mu.Unlock()
	if seed != 0 {
		script = fmt.Sprintf("(set-option :random-seed %d)\n", seed%1000000) + script
	}
	key := script
	mu.Lock()
	if r, ok := cache[key]; ok {
		mu.Unlock()
		c := *r
		c.Obl = o
		return &c
	}
	mu.Unlock()
	r := race(script, timeoutS)
	r.Obl = o
	r.Size = len(script)
	r.Script = script
	if r.Status == "sat" {
		r.Model = parseModel(r.Output)
	}
	mu.Lock()
	cache[key] = r
	mu.Unlock()
	return r
}

// race: stage 1 z3-new alone (short); stage 2 all three concurrently, first definitive answer wins.
func race(script string, timeoutS int) *Result {
	t0 := time.Now()
	short := 3
	if timeoutS < short {
		short = timeoutS
	}
	st, out, _ := runSolver(context.Background(), solvers[0], script, short)
	if st == "sat" || st == "unsat" {
		return &Result{Status: st, Solver: solvers[0].name, Seconds: time.Since(t0).Seconds(), Output: out}
	}
	ctx, cancel := context.WithCancel(context.Background())
	defer cancel()
	type ans struct {
		st, out, name string
	}
	ch := make(chan ans, len(solvers))
	for _, sp := range solvers {
		sp := sp
		go func() {
			s, o, _ := runSolver(ctx, sp, script, timeoutS)
			ch <- ans{s, o, sp.name}
		}()
	}
	var last ans
	var outs []string
	worst := "unknown"
	for range solvers {
		a := <-ch
		if a.st == "sat" || a.st == "unsat" {
			cancel()
			return &Result{Status: a.st, Solver: a.name, Seconds: time.Since(t0).Seconds(), Output: a.out}
		}
		if a.st == "timeout" {
			worst = "timeout"
		}
		outs = append(outs, a.name+": "+firstLines(a.out, 3))
		last = a
	}
	_ = last
	return &Result{Status: worst, Solver: "none", Seconds: time.Since(t0).Seconds(), Output: strings.Join(outs, "\n")}
}

func firstLines(s string, n int) string {
	ls := strings.Split(strings.TrimSpace(s), "\n")
	if len(ls) > n {
		ls = ls[:n]
	}
	return strings.Join(ls, " | ")
}

var modelPair = regexp.MustCompile(`\(\s*(\|[^|]*\||[^\s()]+)\s+(#x[0-9a-fA-F]+|#b[01]+|true|false)\s*\)`)

func parseModel(out string) map[string]string {
	m := map[string]string{}
	for _, mt := range modelPair.FindAllStringSubmatch(out, -1) {
		m[strings.Trim(mt[1], "|")] = mt[2]
	}
	return m
}

func SortedModel(m map[string]string) []string {
	var ks []string
	for k := range m {
		ks = append(ks, k)
	}
	sort.Strings(ks)
	var out []string
	for _, k := range ks {
		out = append(out, k+" = "+m[k])
	}
	return out
}
