// Package vc: verification-condition generator over go/ssa.
//
// term.go: hash-consed SMT terms (Bool, bit-vectors, arrays, uninterpreted
// functions, quantifiers) with light constant folding, and the SMT-LIB printer.
package vc

import (
	"fmt"
	"math/big"
	"sort"
	"strings"
)

type SortKind int

const (
	SBool SortKind = iota
	SBV
	SArray
	SUnint
	SFP
)

type Sort struct {
	Kind  SortKind
	Width int
	Idx   *Sort
	Elem  *Sort
	Name  string
	str   string
}

var sortTab = map[string]*Sort{}

func internSort(s *Sort) *Sort {
	switch s.Kind {
	case SBool:
		s.str = "Bool"
	case SBV:
		s.str = fmt.Sprintf("(_ BitVec %d)", s.Width)
	case SArray:
		s.str = "(Array " + s.Idx.str + " " + s.Elem.str + ")"
	case SUnint:
		s.str = s.Name
	case SFP:
		s.str = fmt.Sprintf("(_ FloatingPoint %d %d)", s.Width, s.Idx.Width)
	}
	if o, ok := sortTab[s.str]; ok {
		return o
	}
	sortTab[s.str] = s
	return s
}

var BoolSort = internSort(&Sort{Kind: SBool})

func BV(n int) *Sort             { return internSort(&Sort{Kind: SBV, Width: n}) }
func ArraySort(i, e *Sort) *Sort { return internSort(&Sort{Kind: SArray, Idx: i, Elem: e}) }
func UnintSort(name string) *Sort {
	return internSort(&Sort{Kind: SUnint, Name: name})
}
func (s *Sort) String() string { return s.str }

// FPSort: eb exponent bits, sb significand bits (incl. hidden bit).
func FPSort(eb, sb int) *Sort { return internSort(&Sort{Kind: SFP, Width: eb, Idx: &Sort{Width: sb}}) }

var (
	FP32 = FPSort(8, 24)
	FP64 = FPSort(11, 53)
)

// Lit is a verbatim SMT token of the given sort (e.g. rounding modes).
func Lit(text string, s *Sort) *Term { return T.mk(&Term{Op: "lit", Name: text, Sort: s}) }

var RNE = Lit("RNE", UnintSort("RoundingMode"))
var RTZ = Lit("RTZ", UnintSort("RoundingMode"))

var (
	BV64     = BV(64)
	BV8      = BV(8)
	BV1      = BV(1)
	RefSort  = BV64
	ByteArr  = ArraySort(BV64, BV8)
	IfaceSrt = UnintSort("Iface")
)

// Term is an immutable hash-consed SMT term.
type Term struct {
	ID   int
	Op   string // SMT operator, or "const" (bv literal), "var", "app" (uninterpreted fn), "forall", "exists", "true", "false"
	Args []*Term
	Sort *Sort
	Name string   // var / app name, or indexed-operator suffix
	Val  *big.Int // for bv const
	Bnd  []*Term  // bound vars for quantifiers
	Pat  []*Term  // optional patterns
}

type termTable struct {
	tab   map[string]*Term
	next  int
	fresh map[string]int
	// declared uninterpreted functions: name -> signature
	Funs map[string]*FunDecl
}

type FunDecl struct {
	Name string
	Args []*Sort
	Res  *Sort
	Def  string // optional SMT body (define-fun); args named a0..an
}

var T = newTermTable()

func newTermTable() *termTable {
	return &termTable{tab: map[string]*Term{}, fresh: map[string]int{}, Funs: map[string]*FunDecl{}}
}

func (tt *termTable) mk(t *Term) *Term {
	var sb strings.Builder
	sb.WriteString(t.Op)
	sb.WriteByte('|')
	sb.WriteString(t.Name)
	sb.WriteByte('|')
	sb.WriteString(t.Sort.str)
	if t.Val != nil {
		sb.WriteByte('|')
		sb.WriteString(t.Val.Text(16))
	}
	for _, a := range t.Args {
		fmt.Fprintf(&sb, ",%d", a.ID)
	}
	for _, a := range t.Bnd {
		fmt.Fprintf(&sb, ";%d", a.ID)
	}
	for _, a := range t.Pat {
		fmt.Fprintf(&sb, "!%d", a.ID)
	}
	k := sb.String()
	if o, ok := tt.tab[k]; ok {
		return o
	}
	tt.next++
	t.ID = tt.next
	tt.tab[k] = t
	return t
}

var (
	True  = T.mk(&Term{Op: "true", Sort: BoolSort})
	False = T.mk(&Term{Op: "false", Sort: BoolSort})
)

func Var(name string, s *Sort) *Term { return T.mk(&Term{Op: "var", Name: name, Sort: s}) }

// Fresh returns a new variable with a unique name derived from hint.
func Fresh(hint string, s *Sort) *Term {
	hint = sanitize(hint)
	T.fresh[hint]++
	return Var(fmt.Sprintf("%s!%d", hint, T.fresh[hint]), s)
}

func sanitize(s string) string {
	var sb strings.Builder
	for _, r := range s {
		switch {
		case r >= 'a' && r <= 'z', r >= 'A' && r <= 'Z', r >= '0' && r <= '9', r == '_', r == '.', r == '!', r == '$', r == '#':
			sb.WriteRune(r)
		default:
			sb.WriteByte('_')
		}
	}
	if sb.Len() == 0 {
		return "v"
	}
	return sb.String()
}

func BVConst(v *big.Int, w int) *Term {
	m := new(big.Int).Lsh(big.NewInt(1), uint(w))
	x := new(big.Int).Mod(v, m)
	return T.mk(&Term{Op: "const", Sort: BV(w), Val: x})
}
func BVU(v uint64, w int) *Term { return BVConst(new(big.Int).SetUint64(v), w) }
func BVI(v int64, w int) *Term  { return BVConst(big.NewInt(v), w) }
func Bool(b bool) *Term {
	if b {
		return True
	}
	return False
}

func (t *Term) IsConst() bool { return t.Op == "const" }
func (t *Term) IsTrue() bool  { return t == True }
func (t *Term) IsFalse() bool { return t == False }

// Signed value of a constant.
func (t *Term) SVal() *big.Int {
	w := t.Sort.Width
	v := new(big.Int).Set(t.Val)
	if v.Bit(w-1) == 1 {
		v.Sub(v, new(big.Int).Lsh(big.NewInt(1), uint(w)))
	}
	return v
}

func App(name string, res *Sort, args ...*Term) *Term {
	if _, ok := T.Funs[name]; !ok {
		var as []*Sort
		for _, a := range args {
			as = append(as, a.Sort)
		}
		T.Funs[name] = &FunDecl{Name: name, Args: as, Res: res}
	}
	return T.mk(&Term{Op: "app", Name: name, Args: args, Sort: res})
}

func Not(a *Term) *Term {
	switch {
	case a == True:
		return False
	case a == False:
		return True
	case a.Op == "not":
		return a.Args[0]
	}
	return T.mk(&Term{Op: "not", Args: []*Term{a}, Sort: BoolSort})
}

func And(as ...*Term) *Term {
	var out []*Term
	seen := map[int]bool{}
	for _, a := range as {
		if a == True {
			continue
		}
		if a == False {
			return False
		}
		if a.Op == "and" {
			for _, b := range a.Args {
				if !seen[b.ID] {
					seen[b.ID] = true
					out = append(out, b)
				}
			}
			continue
		}
		if !seen[a.ID] {
			seen[a.ID] = true
			out = append(out, a)
		}
	}
	switch len(out) {
	case 0:
		return True
	case 1:
		return out[0]
	}
	return T.mk(&Term{Op: "and", Args: out, Sort: BoolSort})
}

func Or(as ...*Term) *Term {
	var out []*Term
	seen := map[int]bool{}
	for _, a := range as {
		if a == False {
			continue
		}
		if a == True {
			return True
		}
		if a.Op == "or" {
			for _, b := range a.Args {
				if !seen[b.ID] {
					seen[b.ID] = true
					out = append(out, b)
				}
			}
			continue
		}
		if !seen[a.ID] {
			seen[a.ID] = true
			out = append(out, a)
		}
	}
	switch len(out) {
	case 0:
		return False
	case 1:
		return out[0]
	}
	return T.mk(&Term{Op: "or", Args: out, Sort: BoolSort})
}

func Implies(a, b *Term) *Term {
	if a == True {
		return b
	}
	if a == False || b == True {
		return True
	}
	if b == False {
		return Not(a)
	}
	return T.mk(&Term{Op: "=>", Args: []*Term{a, b}, Sort: BoolSort})
}

func Eq(a, b *Term) *Term {
	if a.Sort != b.Sort {
		panic(fmt.Sprintf("Eq sort mismatch: %s vs %s (%s = %s)", a.Sort, b.Sort, a, b))
	}
	if a == b {
		return True
	}
	if a.IsConst() && b.IsConst() {
		return Bool(a.Val.Cmp(b.Val) == 0)
	}
	if a.Sort == BoolSort {
		if a == True {
			return b
		}
		if b == True {
			return a
		}
		if a == False {
			return Not(b)
		}
		if b == False {
			return Not(a)
		}
	}
	if a.ID > b.ID {
		a, b = b, a
	}
	return T.mk(&Term{Op: "=", Args: []*Term{a, b}, Sort: BoolSort})
}

func Ne(a, b *Term) *Term { return Not(Eq(a, b)) }

func Ite(c, a, b *Term) *Term {
	if a.Sort != b.Sort {
		panic(fmt.Sprintf("Ite sort mismatch: %s vs %s", a.Sort, b.Sort))
	}
	if c == True {
		return a
	}
	if c == False {
		return b
	}
	if a == b {
		return a
	}
	if a.Sort == BoolSort {
		if a == True && b == False {
			return c
		}
		if a == False && b == True {
			return Not(c)
		}
	}
	return T.mk(&Term{Op: "ite", Args: []*Term{c, a, b}, Sort: a.Sort})
}

func mask(w int) *big.Int {
	return new(big.Int).Sub(new(big.Int).Lsh(big.NewInt(1), uint(w)), big.NewInt(1))
}

// BVBin builds a binary bit-vector operation with constant folding.
func BVBin(op string, a, b *Term) *Term {
	if a.Sort != b.Sort || a.Sort.Kind != SBV {
		panic(fmt.Sprintf("BVBin %s sort mismatch: %s vs %s (%s, %s)", op, a.Sort, b.Sort, a, b))
	}
	w := a.Sort.Width
	if a.IsConst() && b.IsConst() {
		x, y := a.Val, b.Val
		r := new(big.Int)
		switch op {
		case "bvadd":
			return BVConst(r.Add(x, y), w)
		case "bvsub":
			return BVConst(r.Sub(x, y), w)
		case "bvmul":
			return BVConst(r.Mul(x, y), w)
		case "bvand":
			return BVConst(r.And(x, y), w)
		case "bvor":
			return BVConst(r.Or(x, y), w)
		case "bvxor":
			return BVConst(r.Xor(x, y), w)
		case "bvshl":
			if y.Cmp(big.NewInt(int64(w))) >= 0 {
				return BVU(0, w)
			}
			return BVConst(r.Lsh(x, uint(y.Uint64())), w)
		case "bvlshr":
			if y.Cmp(big.NewInt(int64(w))) >= 0 {
				return BVU(0, w)
			}
			return BVConst(r.Rsh(x, uint(y.Uint64())), w)
		case "bvashr":
			sx := a.SVal()
			sh := uint(w)
			if y.Cmp(big.NewInt(int64(w))) < 0 {
				sh = uint(y.Uint64())
			}
			return BVConst(r.Rsh(sx, sh), w)
		case "bvudiv":
			if y.Sign() != 0 {
				return BVConst(r.Div(x, y), w)
			}
		case "bvurem":
			if y.Sign() != 0 {
				return BVConst(r.Mod(x, y), w)
			}
		case "bvsdiv":
			if y.Sign() != 0 {
				return BVConst(r.Quo(a.SVal(), b.SVal()), w)
			}
		case "bvsrem":
			if y.Sign() != 0 {
				return BVConst(r.Rem(a.SVal(), b.SVal()), w)
			}
		}
	}
	zero := func(t *Term) bool { return t.IsConst() && t.Val.Sign() == 0 }
	switch op {
	case "bvadd":
		if zero(a) {
			return b
		}
		if zero(b) {
			return a
		}
		// (x + c1) + c2 => x + (c1+c2)
		if b.IsConst() && a.Op == "bvadd" && len(a.Args) == 2 && a.Args[1].IsConst() {
			return BVBin("bvadd", a.Args[0], BVConst(new(big.Int).Add(a.Args[1].Val, b.Val), w))
		}
		if a.IsConst() && !b.IsConst() {
			a, b = b, a
		}
	case "bvsub":
		if zero(b) {
			return a
		}
		if a == b {
			return BVU(0, w)
		}
		if b.IsConst() {
			return BVBin("bvadd", a, BVConst(new(big.Int).Neg(b.Val), w))
		}
		// (x + c) - x => c
		if a.Op == "bvadd" && len(a.Args) == 2 && a.Args[0] == b {
			return a.Args[1]
		}
	case "bvor", "bvxor":
		if zero(a) {
			return b
		}
		if zero(b) {
			return a
		}
	case "bvand":
		if zero(a) || zero(b) {
			return BVU(0, w)
		}
		if a.IsConst() && a.Val.Cmp(mask(w)) == 0 {
			return b
		}
		if b.IsConst() && b.Val.Cmp(mask(w)) == 0 {
			return a
		}
	case "bvshl", "bvlshr", "bvashr":
		if zero(b) {
			return a
		}
	case "bvmul":
		if zero(a) || zero(b) {
			return BVU(0, w)
		}
		if a.IsConst() && a.Val.Cmp(big.NewInt(1)) == 0 {
			return b
		}
		if b.IsConst() && b.Val.Cmp(big.NewInt(1)) == 0 {
			return a
		}
	}
	return T.mk(&Term{Op: op, Args: []*Term{a, b}, Sort: a.Sort})
}

func BVNeg(a *Term) *Term {
	if a.IsConst() {
		return BVConst(new(big.Int).Neg(a.Val), a.Sort.Width)
	}
	return T.mk(&Term{Op: "bvneg", Args: []*Term{a}, Sort: a.Sort})
}
func BVNot(a *Term) *Term {
	if a.IsConst() {
		return BVConst(new(big.Int).Xor(a.Val, mask(a.Sort.Width)), a.Sort.Width)
	}
	return T.mk(&Term{Op: "bvnot", Args: []*Term{a}, Sort: a.Sort})
}

// BVCmp: op in bvult bvule bvugt bvuge bvslt bvsle bvsgt bvsge
func BVCmp(op string, a, b *Term) *Term {
	if a.Sort != b.Sort || a.Sort.Kind != SBV {
		panic(fmt.Sprintf("BVCmp %s sort mismatch: %s vs %s (%s ; %s)", op, a.Sort, b.Sort, a, b))
	}
	if a.IsConst() && b.IsConst() {
		var c int
		if op[2] == 's' {
			c = a.SVal().Cmp(b.SVal())
		} else {
			c = a.Val.Cmp(b.Val)
		}
		switch op[3:] {
		case "lt":
			return Bool(c < 0)
		case "le":
			return Bool(c <= 0)
		case "gt":
			return Bool(c > 0)
		case "ge":
			return Bool(c >= 0)
		}
	}
	if a == b {
		switch op[3:] {
		case "lt", "gt":
			return False
		default:
			return True
		}
	}
	// normalise gt/ge to lt/le
	switch op {
	case "bvugt":
		return BVCmp("bvult", b, a)
	case "bvuge":
		return BVCmp("bvule", b, a)
	case "bvsgt":
		return BVCmp("bvslt", b, a)
	case "bvsge":
		return BVCmp("bvsle", b, a)
	}
	if op == "bvule" && a.IsConst() && a.Val.Sign() == 0 {
		return True
	}
	if op == "bvult" && b.IsConst() && b.Val.Sign() == 0 {
		return False
	}
	return T.mk(&Term{Op: op, Args: []*Term{a, b}, Sort: BoolSort})
}

func Extract(hi, lo int, a *Term) *Term {
	w := a.Sort.Width
	if lo == 0 && hi == w-1 {
		return a
	}
	if a.IsConst() {
		v := new(big.Int).Rsh(a.Val, uint(lo))
		return BVConst(v, hi-lo+1)
	}
	// extract of zero_extend/sign_extend fully inside the original
	if (a.Op == "zero_extend" || a.Op == "sign_extend") && hi < a.Args[0].Sort.Width {
		return Extract(hi, lo, a.Args[0])
	}
	if a.Op == "extract" {
		var h0, l0 int
		fmt.Sscanf(a.Name, "%d %d", &h0, &l0)
		return Extract(hi+l0, lo+l0, a.Args[0])
	}
	return T.mk(&Term{Op: "extract", Name: fmt.Sprintf("%d %d", hi, lo), Args: []*Term{a}, Sort: BV(hi - lo + 1)})
}

func ZeroExt(a *Term, to int) *Term {
	w := a.Sort.Width
	if to == w {
		return a
	}
	if to < w {
		return Extract(to-1, 0, a)
	}
	if a.IsConst() {
		return BVConst(a.Val, to)
	}
	if a.Op == "zero_extend" {
		return ZeroExt(a.Args[0], to)
	}
	return T.mk(&Term{Op: "zero_extend", Name: fmt.Sprint(to - w), Args: []*Term{a}, Sort: BV(to)})
}

func SignExt(a *Term, to int) *Term {
	w := a.Sort.Width
	if to == w {
		return a
	}
	if to < w {
		return Extract(to-1, 0, a)
	}
	if a.IsConst() {
		return BVConst(a.SVal(), to)
	}
	return T.mk(&Term{Op: "sign_extend", Name: fmt.Sprint(to - w), Args: []*Term{a}, Sort: BV(to)})
}

func Concat(hi, lo *Term) *Term {
	if hi.IsConst() && lo.IsConst() {
		v := new(big.Int).Lsh(hi.Val, uint(lo.Sort.Width))
		v.Or(v, lo.Val)
		return BVConst(v, hi.Sort.Width+lo.Sort.Width)
	}
	return T.mk(&Term{Op: "concat", Args: []*Term{hi, lo}, Sort: BV(hi.Sort.Width + lo.Sort.Width)})
}

func Select(a, i *Term) *Term {
	if a.Sort.Kind != SArray {
		panic("select on non-array " + a.String())
	}
	if a.Sort.Idx != i.Sort {
		panic(fmt.Sprintf("select index sort mismatch: %s vs %s", a.Sort, i.Sort))
	}
	// read-over-write with decidable index comparison
	cur := a
	for cur.Op == "store" {
		j := cur.Args[1]
		if j == i {
			return cur.Args[2]
		}
		if d := distinctTerms(i, j); d {
			cur = cur.Args[0]
			continue
		}
		break
	}
	if cur.Op == "constarr" {
		return cur.Args[0]
	}
	return T.mk(&Term{Op: "select", Args: []*Term{cur, i}, Sort: a.Sort.Elem})
}

// distinctTerms: syntactically provable disequality (constants, or same base plus different constant offsets).
func distinctTerms(a, b *Term) bool {
	if a.Sort.Kind != SBV {
		return false
	}
	ba, oa := splitOffset(a)
	bb, ob := splitOffset(b)
	if ba == bb {
		return oa.Cmp(ob) != 0
	}
	return false
}

func splitOffset(t *Term) (*Term, *big.Int) {
	if t.IsConst() {
		return nil, t.Val
	}
	if t.Op == "bvadd" && len(t.Args) == 2 && t.Args[1].IsConst() {
		return t.Args[0], t.Args[1].Val
	}
	return t, big.NewInt(0)
}

func Store(a, i, v *Term) *Term {
	if a.Sort.Kind != SArray || a.Sort.Idx != i.Sort || a.Sort.Elem != v.Sort {
		panic(fmt.Sprintf("store sort mismatch: %s [%s] := %s", a.Sort, i.Sort, v.Sort))
	}
	if a.Op == "store" && a.Args[1] == i {
		return Store(a.Args[0], i, v)
	}
	return T.mk(&Term{Op: "store", Args: []*Term{a, i, v}, Sort: a.Sort})
}

func ConstArray(s *Sort, v *Term) *Term {
	return T.mk(&Term{Op: "constarr", Args: []*Term{v}, Sort: s})
}

func Forall(bnd []*Term, body *Term, pats ...*Term) *Term {
	if body == True || body == False {
		return body
	}
	if len(pats) == 0 && len(bnd) == 1 {
		pats = autoPatterns(bnd[0], body)
	}
	return T.mk(&Term{Op: "forall", Bnd: bnd, Args: []*Term{body}, Sort: BoolSort, Pat: pats})
}

// patternLegal: solvers reject boolean connectives, ite and predicates inside triggers.
func patternLegal(t *Term, memo map[*Term]bool) bool {
	if v, ok := memo[t]; ok {
		return v
	}
	ok := true
	switch t.Op {
	case "var", "const", "app", "select", "store", "bvadd", "bvsub", "bvmul", "bvneg", "extract", "zero_extend", "sign_extend", "concat",
		"bvshl", "bvlshr", "bvand", "bvor", "bvxor", "bvnot":
		for _, a := range t.Args {
			if !patternLegal(a, memo) {
				ok = false
				break
			}
		}
	default:
		ok = false
	}
	memo[t] = ok
	return ok
}

// autoPatterns: array reads (and uninterpreted applications) whose index mentions the bound
// variable, as alternative E-matching triggers.
func autoPatterns(b, body *Term) []*Term {
	memo := map[*Term]bool{}
	var has func(t *Term) bool
	has = func(t *Term) bool {
		if t == b {
			return true
		}
		if v, ok := memo[t]; ok {
			return v
		}
		r := false
		for _, a := range t.Args {
			if has(a) {
				r = true
				break
			}
		}
		memo[t] = r
		return r
	}
	var pats []*Term
	seen := map[*Term]bool{}
	var walk func(t *Term)
	walk = func(t *Term) {
		if seen[t] || !has(t) {
			return
		}
		seen[t] = true
		if t.Op == "forall" || t.Op == "exists" {
			return
		}
		if t.Op == "select" && !has(t.Args[0]) && has(t.Args[1]) && patternLegal(t, map[*Term]bool{}) {
			pats = append(pats, t)
			return
		}
		if t.Op == "app" && len(t.Args) > 0 && patternLegal(t, map[*Term]bool{}) {
			pats = append(pats, t)
			return
		}
		for _, a := range t.Args {
			walk(a)
		}
	}
	walk(body)
	if len(pats) > 6 {
		pats = pats[:6]
	}
	return pats
}
func Exists(bnd []*Term, body *Term) *Term {
	if body == True || body == False {
		return body
	}
	return T.mk(&Term{Op: "exists", Bnd: bnd, Args: []*Term{body}, Sort: BoolSort})
}

// Floating-point helpers: values are kept as bit patterns; operations go via to_fp.
func FPOp(op string, res *Sort, args ...*Term) *Term {
	return T.mk(&Term{Op: "fp:" + op, Args: args, Sort: res})
}

// Subst replaces variables (by term identity) in t.
func Subst(t *Term, m map[*Term]*Term) *Term {
	cache := map[*Term]*Term{}
	var rec func(t *Term) *Term
	rec = func(t *Term) *Term {
		if r, ok := m[t]; ok {
			return r
		}
		if len(t.Args) == 0 {
			return t
		}
		if r, ok := cache[t]; ok {
			return r
		}
		args := make([]*Term, len(t.Args))
		changed := false
		for i, a := range t.Args {
			args[i] = rec(a)
			if args[i] != a {
				changed = true
			}
		}
		var r *Term
		if !changed {
			r = t
		} else if t.Op == "forall" || t.Op == "exists" {
			pats := make([]*Term, len(t.Pat))
			for i, p := range t.Pat {
				pats[i] = rec(p)
			}
			if args[0] == True || args[0] == False {
				r = args[0]
			} else {
				r = T.mk(&Term{Op: t.Op, Bnd: t.Bnd, Args: args, Sort: BoolSort, Pat: pats})
			}
		} else {
			r = rebuild(t, args)
		}
		cache[t] = r
		return r
	}
	return rec(t)
}

func rebuild(t *Term, args []*Term) *Term {
	switch t.Op {
	case "not":
		return Not(args[0])
	case "and":
		return And(args...)
	case "or":
		return Or(args...)
	case "=>":
		return Implies(args[0], args[1])
	case "=":
		return Eq(args[0], args[1])
	case "ite":
		return Ite(args[0], args[1], args[2])
	case "select":
		return Select(args[0], args[1])
	case "store":
		return Store(args[0], args[1], args[2])
	case "bvadd", "bvsub", "bvmul", "bvand", "bvor", "bvxor", "bvshl", "bvlshr", "bvashr", "bvudiv", "bvurem", "bvsdiv", "bvsrem":
		return BVBin(t.Op, args[0], args[1])
	case "bvult", "bvule", "bvslt", "bvsle":
		return BVCmp(t.Op, args[0], args[1])
	case "bvneg":
		return BVNeg(args[0])
	case "bvnot":
		return BVNot(args[0])
	case "extract":
		var h, l int
		fmt.Sscanf(t.Name, "%d %d", &h, &l)
		return Extract(h, l, args[0])
	case "zero_extend":
		return ZeroExt(args[0], t.Sort.Width)
	case "sign_extend":
		return SignExt(args[0], t.Sort.Width)
	case "concat":
		return Concat(args[0], args[1])
	}
	return T.mk(&Term{Op: t.Op, Name: t.Name, Args: args, Sort: t.Sort, Val: t.Val, Bnd: t.Bnd, Pat: t.Pat})
}

func (t *Term) String() string {
	var sb strings.Builder
	printTerm(&sb, t, nil)
	return sb.String()
}

func bvLit(v *big.Int, w int) string {
	if w%4 == 0 {
		s := v.Text(16)
		return "#x" + strings.Repeat("0", w/4-len(s)) + s
	}
	s := v.Text(2)
	return "#b" + strings.Repeat("0", w-len(s)) + s
}

func symName(n string) string {
	for _, r := range n {
		if !(r >= 'a' && r <= 'z' || r >= 'A' && r <= 'Z' || r >= '0' && r <= '9' || r == '_' || r == '.' || r == '!' || r == '$') {
			return "|" + n + "|"
		}
	}
	return n
}

func printTerm(sb *strings.Builder, t *Term, names map[*Term]string) {
	if names != nil {
		if n, ok := names[t]; ok {
			sb.WriteString(n)
			return
		}
	}
	switch t.Op {
	case "true", "false":
		sb.WriteString(t.Op)
	case "const":
		sb.WriteString(bvLit(t.Val, t.Sort.Width))
	case "var":
		sb.WriteString(symName(t.Name))
	case "lit":
		sb.WriteString(t.Name)
	case "app":
		if len(t.Args) == 0 {
			sb.WriteString(symName(t.Name))
			return
		}
		sb.WriteString("(" + symName(t.Name))
		for _, a := range t.Args {
			sb.WriteByte(' ')
			printTerm(sb, a, names)
		}
		sb.WriteByte(')')
	case "extract":
		sb.WriteString("((_ extract " + t.Name + ") ")
		printTerm(sb, t.Args[0], names)
		sb.WriteByte(')')
	case "zero_extend", "sign_extend":
		sb.WriteString("((_ " + t.Op + " " + t.Name + ") ")
		printTerm(sb, t.Args[0], names)
		sb.WriteByte(')')
	case "constarr":
		sb.WriteString("((as const " + t.Sort.str + ") ")
		printTerm(sb, t.Args[0], names)
		sb.WriteByte(')')
	case "forall", "exists":
		sb.WriteString("(" + t.Op + " (")
		for _, b := range t.Bnd {
			sb.WriteString("(" + symName(b.Name) + " " + b.Sort.str + ")")
		}
		sb.WriteString(") ")
		if len(t.Pat) > 0 {
			sb.WriteString("(! ")
		}
		printTerm(sb, t.Args[0], names)
		if len(t.Pat) > 0 {
			// each pattern is an alternative trigger
			for _, p := range t.Pat {
				sb.WriteString(" :pattern (")
				printTerm(sb, p, names)
				sb.WriteString(")")
			}
			sb.WriteString(")")
		}
		sb.WriteByte(')')
	default:
		op := t.Op
		if strings.HasPrefix(op, "fp:") {
			op = op[3:]
		}
		sb.WriteString("(" + op)
		for _, a := range t.Args {
			sb.WriteByte(' ')
			printTerm(sb, a, names)
		}
		sb.WriteByte(')')
	}
}

// Script renders a satisfiability query: assertions are conjoined; the caller passes the
// negated goal as one of them. Shared sub-terms are named with define-fun.
type Script struct {
	Asserts []*Term
	Prelude string // extra SMT text (spec function definitions)
	GetVals []*Term
}

func (s *Script) Render(logic string, produceModels bool) string {
	var sb strings.Builder
	if produceModels {
		sb.WriteString("(set-option :produce-models true)\n")
	}
	if logic != "" {
		sb.WriteString("(set-logic " + logic + ")\n")
	}
	// collect
	refc := map[*Term]int{}
	var order []*Term
	seen := map[*Term]bool{}
	vars := map[string]*Term{}
	funs := map[string]bool{}
	sorts := map[string]bool{}
	bound := map[*Term]bool{}
	var noteSort func(s *Sort)
	noteSort = func(s *Sort) {
		switch s.Kind {
		case SUnint:
			if s.Name != "RoundingMode" {
				sorts[s.Name] = true
			}
		case SArray:
			noteSort(s.Idx)
			noteSort(s.Elem)
		}
	}
	var hasBound func(t *Term, memo map[*Term]bool) bool
	hasBound = func(t *Term, memo map[*Term]bool) bool {
		if v, ok := memo[t]; ok {
			return v
		}
		r := bound[t]
		if !r {
			for _, a := range t.Args {
				if hasBound(a, memo) {
					r = true
					break
				}
			}
		}
		memo[t] = r
		return r
	}
	var walk func(t *Term)
	walk = func(t *Term) {
		refc[t]++
		if seen[t] {
			return
		}
		seen[t] = true
		noteSort(t.Sort)
		for _, b := range t.Bnd {
			bound[b] = true
			noteSort(b.Sort)
		}
		for _, a := range t.Args {
			walk(a)
		}
		for _, p := range t.Pat {
			walk(p)
		}
		switch t.Op {
		case "var":
			if !bound[t] {
				vars[t.Name] = t
			}
		case "app":
			funs[t.Name] = true
		}
		order = append(order, t)
	}
	all := append([]*Term{}, s.Asserts...)
	// embedded sub-objects: sub!K1(x) and sub!K2(y) are different addresses when K1 != K2 (different
	// fields), and a sub-object is not its enclosing object. Stated for the ground terms that occur.
	{
		var subs []*Term
		seenS := map[*Term]bool{}
		allBound := map[*Term]bool{}
		var collect func(t *Term)
		collect = func(t *Term) {
			if seenS[t] {
				return
			}
			seenS[t] = true
			for _, b := range t.Bnd {
				allBound[b] = true
			}
			for _, a := range t.Args {
				collect(a)
			}
		}
		for _, a := range all {
			collect(a)
		}
		bmemo := map[*Term]bool{}
		var mb func(t *Term) bool
		mb = func(t *Term) bool {
			if r, ok := bmemo[t]; ok {
				return r
			}
			r := allBound[t]
			for _, a := range t.Args {
				if r {
					break
				}
				r = mb(a)
			}
			bmemo[t] = r
			return r
		}
		seenS = map[*Term]bool{}
		var find func(t *Term)
		find = func(t *Term) {
			if seenS[t] {
				return
			}
			seenS[t] = true
			if t.Op == "app" && strings.HasPrefix(t.Name, "sub!") && !mb(t) {
				subs = append(subs, t)
			}
			for _, a := range t.Args {
				find(a)
			}
		}
		for _, a := range all {
			find(a)
		}
		if len(subs) > 1 && len(subs) <= 40 {
			for i := 0; i < len(subs); i++ {
				for j := i + 1; j < len(subs); j++ {
					if subs[i].Name != subs[j].Name {
						all = append(all, Not(Eq(subs[i], subs[j])))
					}
				}
			}
		}
		for _, x := range subs {
			all = append(all, Not(Eq(x, x.Args[0])))
		}
		s.Asserts = all
	}
	all = append(all, s.GetVals...)
	for _, a := range all {
		walk(a)
	}
	var sn []string
	for n := range sorts {
		sn = append(sn, n)
	}
	sort.Strings(sn)
	for _, n := range sn {
		sb.WriteString("(declare-sort " + n + " 0)\n")
	}
	var vn []string
	for n := range vars {
		if !bound[vars[n]] {
			vn = append(vn, n)
		}
	}
	sort.Strings(vn)
	for _, n := range vn {
		sb.WriteString("(declare-const " + symName(n) + " " + vars[n].Sort.str + ")\n")
	}
	var fn []string
	for n := range funs {
		fn = append(fn, n)
	}
	sort.Strings(fn)
	for _, n := range fn {
		d := T.Funs[n]
		if d.Def != "" {
			continue
		}
		sb.WriteString("(declare-fun " + symName(n) + " (")
		for i, a := range d.Args {
			if i > 0 {
				sb.WriteByte(' ')
			}
			sb.WriteString(a.str)
		}
		sb.WriteString(") " + d.Res.str + ")\n")
	}
	sb.WriteString(s.Prelude)
	if sorts["Iface"] {
		// the nil interface value has type tag 0 (every boxed value has a tag >= 1)
		if _, ok := vars["iface!nil"]; !ok {
			sb.WriteString("(declare-const |iface!nil| Iface)\n")
		}
		if !funs["iface!tag"] {
			sb.WriteString("(declare-fun |iface!tag| (Iface) (_ BitVec 32))\n")
		}
		sb.WriteString("(assert (= (|iface!tag| |iface!nil|) #x00000000))\n")
	}
	// name shared nodes (that do not contain bound variables)
	names := map[*Term]string{}
	memo := map[*Term]bool{}
	k := 0
	for _, t := range order {
		if len(t.Args) == 0 || refc[t] < 2 || t.Op == "forall" || t.Op == "exists" {
			continue
		}
		if hasBound(t, memo) {
			continue
		}
		var b strings.Builder
		printTerm(&b, &Term{Op: t.Op, Name: t.Name, Args: t.Args, Sort: t.Sort, Val: t.Val, Bnd: t.Bnd, Pat: t.Pat}, names)
		k++
		nm := fmt.Sprintf("?n%d", k)
		fmt.Fprintf(&sb, "(define-fun %s () %s %s)\n", nm, t.Sort.str, b.String())
		names[t] = nm
	}
	for _, a := range s.Asserts {
		var b strings.Builder
		printTerm(&b, a, names)
		sb.WriteString("(assert " + b.String() + ")\n")
	}
	sb.WriteString("(check-sat)\n")
	if produceModels && len(s.GetVals) > 0 {
		sb.WriteString("(get-value (")
		for i, g := range s.GetVals {
			if i > 0 {
				sb.WriteByte(' ')
			}
			var b strings.Builder
			printTerm(&b, g, names)
			sb.WriteString(b.String())
		}
		sb.WriteString("))\n")
	}
	return sb.String()
}
