package vc

// inst.go: quantifier handling done by the generator itself, so that most queries reach the
// solvers quantifier-free (QF_ABV + FP), where they are decided by bit-blasting:
//
//   - universally quantified goals are skolemised;
//   - universally quantified assumptions are instantiated (E-matching on array reads) at the
//     ground array reads occurring in the query, to a fixpoint with a bound.
//
// Instances of assumptions are consequences of the assumptions, so an `unsat` answer for the
// instantiated query discharges the original obligation. Anything else falls back to the full
// quantified query.

import (
	"fmt"
	"os"
)

var debugInst = os.Getenv("VCDEBUGINST") != ""

type qfact struct {
	guard *Term
	q     *Term // forall term
}

// splitAssumption collects (guard, forall) pairs and ground conjuncts of an assumption.
func splitAssumption(a *Term, guard *Term, ground *[]*Term, qs *[]qfact, memo map[*Term]bool) {
	if !hasQuant(a, memo) {
		*ground = append(*ground, Implies(guard, a))
		return
	}
	switch a.Op {
	case "and":
		for _, x := range a.Args {
			splitAssumption(x, guard, ground, qs, memo)
		}
	case "=>":
		if !hasQuant(a.Args[0], memo) {
			splitAssumption(a.Args[1], And(guard, a.Args[0]), ground, qs, memo)
		}
	case "ite":
		if a.Sort == BoolSort && !hasQuant(a.Args[0], memo) {
			splitAssumption(a.Args[1], And(guard, a.Args[0]), ground, qs, memo)
			splitAssumption(a.Args[2], And(guard, Not(a.Args[0])), ground, qs, memo)
		}
	case "forall":
		*qs = append(*qs, qfact{guard, a})
	}
	// other shapes (exists, quantifier under or/not): dropped (sound)
}

// skolemize replaces positively occurring universal quantifiers of a goal by fresh constants.
func skolemize(g *Term, memo map[*Term]bool) *Term {
	if !hasQuant(g, memo) {
		return g
	}
	switch g.Op {
	case "and":
		args := make([]*Term, len(g.Args))
		for i, a := range g.Args {
			args[i] = skolemize(a, memo)
		}
		return And(args...)
	case "or":
		args := make([]*Term, len(g.Args))
		for i, a := range g.Args {
			args[i] = skolemize(a, memo)
		}
		return Or(args...)
	case "=>":
		if !hasQuant(g.Args[0], memo) {
			return Implies(g.Args[0], skolemize(g.Args[1], memo))
		}
	case "ite":
		if g.Sort == BoolSort && !hasQuant(g.Args[0], memo) {
			return Ite(g.Args[0], skolemize(g.Args[1], memo), skolemize(g.Args[2], memo))
		}
	case "forall":
		m := map[*Term]*Term{}
		for _, b := range g.Bnd {
			m[b] = Fresh("sk:"+b.Name, b.Sort)
		}
		return skolemize(Subst(g.Args[0], m), memo)
	}
	return g
}

// collectReads gathers ground array-read terms select(A, X), grouped by array A.
func collectReads(t *Term, seen map[*Term]bool, reads map[*Term][]*Term, bound map[*Term]bool) {
	if seen[t] {
		return
	}
	seen[t] = true
	if t.Op == "forall" || t.Op == "exists" {
		return
	}
	if t.Op == "select" {
		reads[t.Args[0]] = append(reads[t.Args[0]], t.Args[1])
	}
	for _, a := range t.Args {
		collectReads(a, seen, reads, bound)
	}
}

type trigger struct {
	arr  *Term
	base *Term // nil: index is the bound variable itself; else index = base + bound
}

func triggersOf(q *Term) []trigger {
	if len(q.Bnd) != 1 {
		return nil
	}
	b := q.Bnd[0]
	var out []trigger
	seen := map[*Term]bool{}
	var walk func(t *Term)
	walk = func(t *Term) {
		if seen[t] {
			return
		}
		seen[t] = true
		if t.Op == "forall" || t.Op == "exists" {
			return
		}
		if t.Op == "select" && !mentions(t.Args[0], b) {
			ix := t.Args[1]
			if ix == b {
				out = append(out, trigger{arr: t.Args[0]})
			} else if ix.Op == "bvadd" && len(ix.Args) == 2 {
				if ix.Args[1] == b && !mentions(ix.Args[0], b) {
					out = append(out, trigger{arr: t.Args[0], base: ix.Args[0]})
				} else if ix.Args[0] == b && !mentions(ix.Args[1], b) {
					out = append(out, trigger{arr: t.Args[0], base: ix.Args[1]})
				}
			}
		}
		for _, a := range t.Args {
			walk(a)
		}
	}
	walk(q.Args[0])
	return out
}

func mentionsAny(t *Term, set map[*Term]bool) bool {
	if len(set) == 0 {
		return false
	}
	memo := map[*Term]bool{}
	var rec func(t *Term) bool
	rec = func(t *Term) bool {
		if set[t] {
			return true
		}
		if len(t.Args) == 0 {
			return false
		}
		if r, ok := memo[t]; ok {
			return r
		}
		r := false
		for _, a := range t.Args {
			if rec(a) {
				r = true
				break
			}
		}
		memo[t] = r
		return r
	}
	return rec(t)
}

func mentions(t, v *Term) bool {
	return mentionsMemo(t, v, map[*Term]bool{})
}

func mentionsMemo(t, v *Term, memo map[*Term]bool) bool {
	if t == v {
		return true
	}
	if len(t.Args) == 0 {
		return false
	}
	if r, ok := memo[t]; ok {
		return r
	}
	r := false
	for _, a := range t.Args {
		if mentionsMemo(a, v, memo) {
			r = true
			break
		}
	}
	memo[t] = r
	return r
}

// Instantiate returns a quantifier-free weakening of (assumptions, goal): ground assumptions plus
// instances, and the skolemised goal. ok=false when the goal keeps a quantifier.
func Instantiate(assume []*Term, goal *Term, cover bool) (qf []*Term, g *Term, ninst int, ok bool) {
	memo := map[*Term]bool{}
	var ground []*Term
	var qs []qfact
	for _, a := range assume {
		splitAssumption(a, True, &ground, &qs, memo)
	}
	g = goal
	if !cover {
		g = skolemize(goal, memo)
		if hasQuant(g, memo) {
			return nil, nil, 0, false
		}
	}
	type qt struct {
		f    qfact
		trig []trigger
		done map[*Term]bool
	}
	var qts []*qt
	for _, f := range qs {
		qts = append(qts, &qt{f: f, trig: triggersOf(f.q), done: map[*Term]bool{}})
		if debugInst {
			fmt.Fprintf(os.Stderr, "quantifier %.300s\n", f.q)
			for _, tr := range qts[len(qts)-1].trig {
				fmt.Fprintf(os.Stderr, "   trigger arr=%.80s base=%.200v\n", tr.arr, tr.base)
			}
		}
	}
	all := append([]*Term(nil), ground...)
	if !cover {
		all = append(all, g)
	}
	seen := map[*Term]bool{}
	reads := map[*Term][]*Term{}
	for _, t := range all {
		collectReads(t, seen, reads, nil)
	}
	const maxInst = 3000
	nzIn := ground
	if !cover {
		nzIn = append(append([]*Term(nil), ground...), negateSplit(g)...)
	}
	nz := newNormalizer(nzIn)
	// skolem-directed instances: loop invariants and their goals usually talk about the same index, so
	// every quantified assumption is also instantiated at the goal's skolem constants (and +-1)
	var skolems []*Term
	if !cover {
		seenSk := map[*Term]bool{}
		var findSk func(t *Term)
		visited := map[*Term]bool{}
		findSk = func(t *Term) {
			if visited[t] {
				return
			}
			visited[t] = true
			if t.Op == "var" && ((len(t.Name) > 3 && t.Name[:3] == "sk_") || (len(t.Name) > 2 && t.Name[:2] == "f!")) && !seenSk[t] {
				seenSk[t] = true
				skolems = append(skolems, t)
			}
			for _, a := range t.Args {
				findSk(a)
			}
		}
		findSk(g)
	}
	skolemSet := map[*Term]bool{}
	for _, sk := range skolems {
		skolemSet[sk] = true
	}
	addInst := func(q *qfact, done map[*Term]bool, inst *Term, out *[]*Term) {
		if done[inst] {
			return
		}
		done[inst] = true
		b := q.q.Bnd[0]
		body := expandBounded(Subst(q.q.Args[0], map[*Term]*Term{b: inst}))
		if hasQuant(body, memo) {
			return
		}
		t := Implies(q.guard, body)
		if nz.rewrite(t) == True {
			return
		}
		*out = append(*out, t)
		ninst++
	}
	if len(skolems) > 0 && len(skolems) <= 4 {
		var extra []*Term
		for _, q := range qts {
			if len(q.f.q.Bnd) != 1 {
				continue
			}
			b := q.f.q.Bnd[0]
			for _, sk := range skolems {
				if sk.Sort != b.Sort || sk.Sort.Kind != SBV {
					continue
				}
				if os.Getenv("VC_NOSKIP") == "" && (b.Name == "r?alloc" || len(q.trig) == 0) {
					continue // allocation-map growth and trigger-less facts are not about indexes
				}
				addInst(&q.f, q.done, sk, &extra)
				if os.Getenv("VC_SKPM") != "" {
					w := sk.Sort.Width
					addInst(&q.f, q.done, BVBin("bvadd", sk, BVU(1, w)), &extra)
					addInst(&q.f, q.done, BVBin("bvsub", sk, BVU(1, w)), &extra)
				}
			}
		}
		for _, t := range extra {
			ground = append(ground, t)
			collectReads(t, seen, reads, nil)
		}
	}
	for round := 0; round < 6; round++ {
		var newTerms []*Term
		for _, q := range qts {
			b := q.f.q.Bnd[0]
			for _, tr := range q.trig {
				for _, x := range reads[tr.arr] {
					if x.Sort != b.Sort {
						continue
					}
					inst := x
					if tr.base != nil {
						if x.Sort == BV64 {
							// x - base in linear form; instances with a negative residue are skipped
							// (skipping instances is always sound)
							d := nz.diff(x, tr.base)
							if debugInst {
								fmt.Fprintf(os.Stderr, "diff x=%.200s\n     base=%.200s\n     => %v\n", x, tr.base, d)
							}
							if d == nil {
								// a residue with a negative part is only worth an instance when the read
								// is about the goal's own index (a skolem constant)
								if !mentionsAny(x, skolemSet) {
									continue
								}
								d = nz.rewrite(BVBin("bvsub", x, tr.base))
							}
							inst = d
						} else {
							inst = BVBin("bvsub", x, tr.base)
						}
					}
					if q.done[inst] {
						continue
					}
					q.done[inst] = true
					body := Subst(q.f.q.Args[0], map[*Term]*Term{b: inst})
					body = expandBounded(body)
					if !hasQuant(body, memo) {
						if nz.rewrite(Implies(q.f.guard, body)) == True {
							if debugInst {
								fmt.Fprintf(os.Stderr, "SKIP instance (normalises to true): %.400s\n", Implies(q.f.guard, body))
							}
							continue // guard is false after normalisation
						}
					}
					if hasQuant(body, memo) {
						// nested quantifier: split again
						var g2 []*Term
						var q2 []qfact
						splitAssumption(body, q.f.guard, &g2, &q2, memo)
						for _, t := range g2 {
							newTerms = append(newTerms, t)
						}
						for _, f := range q2 {
							qts = append(qts, &qt{f: f, trig: triggersOf(f.q), done: map[*Term]bool{}})
						}
						continue
					}
					newTerms = append(newTerms, Implies(q.f.guard, body))
					ninst++
					if ninst > maxInst {
						break
					}
				}
			}
		}
		if len(newTerms) == 0 {
			break
		}
		for _, t := range newTerms {
			ground = append(ground, t)
			collectReads(t, seen, reads, nil)
		}
		if ninst > maxInst {
			break
		}
	}
	return ground, g, ninst, true
}

// negateSplit returns assertions equivalent to (not g), split into top-level conjuncts where the
// shape of g allows it: not(a => b) = a and not b; not(a or b) = not a and not b.
func negateSplit(g *Term) []*Term {
	switch g.Op {
	case "=>":
		return append(conjuncts(g.Args[0]), negateSplit(g.Args[1])...)
	case "or":
		var out []*Term
		for _, a := range g.Args {
			out = append(out, negateSplit(a)...)
		}
		return out
	case "not":
		return conjuncts(g.Args[0])
	}
	return []*Term{Not(g)}
}

func conjuncts(t *Term) []*Term {
	if t.Op == "and" {
		var out []*Term
		for _, a := range t.Args {
			out = append(out, conjuncts(a)...)
		}
		return out
	}
	return []*Term{t}
}

func (o *Obligation) String() string { return fmt.Sprintf("%s [%s]", o.Name, o.Kind) }
