package vc

// structural.go: checks over the SSA of whole packages, declared in contract files as
//
//	//@ structural NAME: no_recover PKG [except PREFIX ...]
//	//@ structural NAME: only_callers (IFACE).METHOD in PKG: FUNC ...
//	//@ structural NAME: callees PKG into TARGETPKG: NAME ...
//
// callees: every function of TARGETPKG that code of PKG calls or takes the value of is in the
// list (names as "NewInt", "(*Int).IsInt64", "(Decimal).Sign"). Used to pin the set of
// math/big and apd operations the encoders apply to caller-owned numbers to read-only ones.
//
// no_recover: no function of the package (closures included) calls the recover builtin, except
// functions whose short key starts with one of the prefixes. Without recover a panic raised below
// propagates to the caller, which is what the "failures are reported" argument (C29) needs from
// the layers between the writer/reader and the API boundary.
//
// only_callers: every call of the interface method in the package is inside one of the listed
// functions (the ones whose contracts account for its error result).
//
// Both are decided by enumeration of the instructions, not by a solver.

import (
	"go/token"
	"go/types"
	"fmt"
	"sort"
	"strings"

	"golang.org/x/tools/go/ssa"
	"golang.org/x/tools/go/ssa/ssautil"
)

func (e *Engine) VerifyStructural(name string) {
	var sc *StructuralCheck
	for _, s := range e.cs.Structural {
		if s.Name == name {
			sc = s
		}
	}
	oname := "structural:" + name
	if sc == nil {
		e.Obls = append(e.Obls, &Obligation{Name: oname, Kind: "resolve", Func: oname, Failed: "no structural check named " + name})
		return
	}
	where := fmt.Sprintf("%s:%d", sc.File, sc.Line)
	fail := func(msg string) {
		e.Obls = append(e.Obls, &Obligation{Name: oname, Kind: "structural", Func: oname, Failed: msg, Clause: sc.Text, Where: where})
	}
	f := strings.Fields(strings.ReplaceAll(sc.Text, ",", " "))
	if len(f) < 2 {
		fail("malformed structural check")
		return
	}
	pkgOf := func(fn *ssa.Function) string {
		k := funcKey(fn)
		if i := strings.Index(k, "::"); i >= 0 {
			return k[:i]
		}
		return ""
	}
	resolvePkg := func(p string) string {
		if strings.HasPrefix(p, "./") {
			return ModulePath + "/" + strings.TrimPrefix(p, "./")
		}
		if !strings.Contains(p, "/") && !strings.Contains(p, ".") {
			return ModulePath + "/" + p
		}
		return p
	}
	var fns []*ssa.Function
	for fn := range ssautil.AllFunctions(e.prog) {
		fns = append(fns, fn)
	}
	sort.Slice(fns, func(i, j int) bool { return funcKey(fns[i]) < funcKey(fns[j]) })
	switch f[0] {
	case "no_recover":
		pkg := resolvePkg(f[1])
		var except []string
		if len(f) > 2 && f[2] == "except" {
			except = f[3:]
		}
		var bad []string
		n := 0
		for _, fn := range fns {
			if pkgOf(fn) != pkg || len(fn.Blocks) == 0 {
				continue
			}
			n++
			sk := shortKey(funcKey(fn))
			skip := false
			for _, x := range except {
				if strings.HasPrefix(sk, x) {
					skip = true
				}
			}
			if skip {
				continue
			}
			for _, b := range fn.Blocks {
				for _, in := range b.Instrs {
					var c *ssa.CallCommon
					switch x := in.(type) {
					case *ssa.Call:
						c = x.Common()
					case *ssa.Defer:
						c = x.Common()
					case *ssa.Go:
						c = x.Common()
					}
					if c == nil {
						continue
					}
					if bi, ok := c.Value.(*ssa.Builtin); ok && bi.Name() == "recover" {
						bad = append(bad, sk+" @"+e.posOf(in.Pos()))
					}
				}
			}
		}
		if n == 0 {
			fail("package " + pkg + " has no functions loaded (is it in the property's package list?)")
			return
		}
		if len(bad) > 0 {
			fail("recover() called in: " + strings.Join(bad, "; "))
			return
		}
		e.Obls = append(e.Obls, &Obligation{Name: oname, Kind: "structural", Func: oname, Goal: True, Clause: fmt.Sprintf("%s (%d functions scanned)", sc.Text, n), Where: where})
	case "only_callers":
		// only_callers (io.Writer).Write in PKG: F1 F2
		if len(f) < 4 || f[2] != "in" {
			fail("only_callers (IFACE).METHOD in PKG: FUNC...")
			return
		}
		method := f[1]
		pkg := resolvePkg(strings.TrimSuffix(f[3], ":"))
		allowed := map[string]bool{}
		for _, x := range f[4:] {
			allowed[strings.TrimSuffix(x, ":")] = true
		}
		var bad []string
		n, sites := 0, 0
		for _, fn := range fns {
			if pkgOf(fn) != pkg || len(fn.Blocks) == 0 {
				continue
			}
			n++
			sk := shortKey(funcKey(fn))
			for _, b := range fn.Blocks {
				for _, in := range b.Instrs {
					var c *ssa.CallCommon
					switch x := in.(type) {
					case *ssa.Call:
						c = x.Common()
					case *ssa.Defer:
						c = x.Common()
					case *ssa.Go:
						c = x.Common()
					}
					if c == nil || !c.IsInvoke() || c.Method.FullName() != method {
						continue
					}
					sites++
					if !allowed[sk] {
						bad = append(bad, sk+" @"+e.posOf(in.Pos()))
					}
				}
			}
		}
		if n == 0 {
			fail("package " + pkg + " has no functions loaded")
			return
		}
		if sites == 0 {
			fail("no call of " + method + " found in " + pkg + " (wrong method name?)")
			return
		}
		if len(bad) > 0 {
			fail(method + " is also called in: " + strings.Join(bad, "; "))
			return
		}
		e.Obls = append(e.Obls, &Obligation{Name: oname, Kind: "structural", Func: oname, Goal: True, Clause: fmt.Sprintf("%s (%d call sites in %d functions)", sc.Text, sites, n), Where: where})
	case "callees":
		if len(f) < 4 || f[2] != "into" {
			fail("callees PKG into TARGETPKG: NAME...")
			return
		}
		// PKG may be restricted to functions: pkg@prefix1|prefix2 (prefixes of the short function key)
		var prefixes []string
		pk := f[1]
		if k := strings.Index(pk, "@"); k >= 0 {
			prefixes = strings.Split(pk[k+1:], "|")
			pk = pk[:k]
		}
		pkg := resolvePkg(pk)
		target := strings.TrimSuffix(f[3], ":")
		allowed := map[string]bool{}
		for _, x := range f[4:] {
			allowed[strings.TrimSuffix(x, ":")] = true
		}
		used := map[string]bool{}
		var bad []string
		n := 0
		nameOf := func(c *ssa.Function) string {
			if c.Pkg == nil || c.Pkg.Pkg.Path() != target {
				// methods of instantiated/wrapped types
				if c.Object() == nil || c.Object().Pkg() == nil || c.Object().Pkg().Path() != target {
					return ""
				}
				return c.RelString(c.Object().Pkg())
			}
			return c.RelString(c.Pkg.Pkg)
		}
		for _, fn := range fns {
			if pkgOf(fn) != pkg || len(fn.Blocks) == 0 {
				continue
			}
			sk := shortKey(funcKey(fn))
			if len(prefixes) > 0 {
				okp := false
				for _, pf := range prefixes {
					if strings.HasPrefix(sk, pf) {
						okp = true
					}
				}
				if !okp {
					continue
				}
			}
			n++
			for _, b := range fn.Blocks {
				for _, in := range b.Instrs {
					var ops []*ssa.Value
					for _, op := range in.Operands(ops) {
						if op == nil || *op == nil {
							continue
						}
						c, ok := (*op).(*ssa.Function)
						if !ok {
							continue
						}
						nm := nameOf(c)
						if nm == "" {
							continue
						}
						used[nm] = true
						if !allowed[nm] {
							bad = append(bad, nm+" in "+sk+" @"+e.posOf(in.Pos()))
						}
					}
				}
			}
		}
		if n == 0 {
			fail("package " + pkg + " has no functions loaded")
			return
		}
		if len(bad) > 0 {
			fail("calls outside the allowed set: " + strings.Join(bad, "; "))
			return
		}
		var us []string
		for k := range used {
			us = append(us, k)
		}
		sort.Strings(us)
		e.Obls = append(e.Obls, &Obligation{Name: oname, Kind: "structural", Func: oname, Goal: True, Clause: fmt.Sprintf("%s (%d functions scanned; used: %s)", sc.Text, n, strings.Join(us, " ")), Where: where})
	case "only_makes":
		// only_makes PKG@prefix1|prefix2: FUNC...   - make([]T, n) / append-free allocation sites
		var prefixes []string
		pk := strings.TrimSuffix(f[1], ":")
		if k := strings.Index(pk, "@"); k >= 0 {
			prefixes = strings.Split(pk[k+1:], "|")
			pk = pk[:k]
		}
		pkg := resolvePkg(pk)
		allowed := map[string]bool{}
		for _, x := range f[2:] {
			allowed[strings.TrimSuffix(x, ":")] = true
		}
		var bad []string
		n, sites := 0, 0
		for _, fn := range fns {
			if pkgOf(fn) != pkg || len(fn.Blocks) == 0 {
				continue
			}
			sk := shortKey(funcKey(fn))
			if len(prefixes) > 0 {
				okp := false
				for _, pf := range prefixes {
					if strings.HasPrefix(sk, pf) {
						okp = true
					}
				}
				if !okp {
					continue
				}
			}
			n++
			for _, b := range fn.Blocks {
				for _, in := range b.Instrs {
					if _, ok := in.(*ssa.MakeSlice); ok {
						sites++
						if !allowed[sk] {
							bad = append(bad, sk+" @"+e.posOf(in.Pos()))
						}
					}
				}
			}
		}
		if n == 0 {
			fail("no functions matched in " + pkg)
			return
		}
		if len(bad) > 0 {
			fail("make([]T, n) also in: " + strings.Join(bad, "; "))
			return
		}
		e.Obls = append(e.Obls, &Obligation{Name: oname, Kind: "structural", Func: oname, Goal: True, Clause: fmt.Sprintf("%s (%d make sites in %d functions)", sc.Text, sites, n), Where: where})
	case "consts_covered":
		// consts_covered (IFACE).METHOD#ARG in PKG1 by PKG2@substr
		// Every constant passed as argument ARG of METHOD at a call site in PKG1 is compared against
		// (==, !=, switch) in some function of PKG2 whose name contains substr: what one side emits,
		// the other side has a case for.
		if len(f) < 6 || f[2] != "in" || f[4] != "by" {
			fail("consts_covered (IFACE).METHOD#ARG in PKG1 by PKG2@substr")
			return
		}
		method, argIdx := f[1], 0
		if k := strings.Index(method, "#"); k >= 0 {
			fmt.Sscanf(method[k+1:], "%d", &argIdx)
			method = method[:k]
		}
		pkg1 := resolvePkg(f[3])
		pk2, substr := f[5], ""
		if k := strings.Index(pk2, "@"); k >= 0 {
			pk2, substr = pk2[:k], pk2[k+1:]
		}
		pkg2 := resolvePkg(pk2)
		emitted := map[string]string{} // constant value -> first site
		var constType types.Type
		sites, dynamic := 0, 0
		for _, fn := range fns {
			if pkgOf(fn) != pkg1 || len(fn.Blocks) == 0 {
				continue
			}
			for _, b := range fn.Blocks {
				for _, in := range b.Instrs {
					cl, ok := in.(*ssa.Call)
					if !ok {
						continue
					}
					c := cl.Common()
					if !c.IsInvoke() || c.Method.FullName() != method || argIdx >= len(c.Args) {
						continue
					}
					sites++
					k, ok := c.Args[argIdx].(*ssa.Const)
					if !ok || k.Value == nil {
						dynamic++
						continue
					}
					constType = k.Type()
					v := k.Value.ExactString()
					if sk := shortKey(funcKey(fn)); !strings.Contains(" "+emitted[v]+" ", " "+sk+" ") {
						emitted[v] = strings.TrimSpace(emitted[v] + " " + sk)
					}
				}
			}
		}
		if sites == 0 || len(emitted) == 0 {
			fail("no call of " + method + " with a constant argument found in " + pkg1)
			return
		}
		handled := map[string]bool{}
		n := 0
		for _, fn := range fns {
			if pkgOf(fn) != pkg2 || len(fn.Blocks) == 0 || !strings.Contains(shortKey(funcKey(fn)), substr) {
				continue
			}
			n++
			for _, b := range fn.Blocks {
				for _, in := range b.Instrs {
					bo, ok := in.(*ssa.BinOp)
					if !ok || (bo.Op != token.EQL && bo.Op != token.NEQ) {
						continue
					}
					for _, op := range []ssa.Value{bo.X, bo.Y} {
						if k, ok := op.(*ssa.Const); ok && k.Value != nil && types.Identical(k.Type(), constType) {
							handled[k.Value.ExactString()] = true
						}
					}
				}
			}
		}
		if n == 0 {
			fail("no function matching " + substr + " in " + pkg2)
			return
		}
		var missing []string
		for v, site := range emitted {
			if !handled[v] {
				missing = append(missing, fmt.Sprintf("%s value %s (emitted in %s)", types.TypeString(constType, func(p *types.Package) string { return p.Name() }), v, site))
			}
		}
		sort.Strings(missing)
		if len(missing) > 0 {
			fail("emitted but never compared against in " + pkg2 + " " + substr + ": " + strings.Join(missing, "; "))
			return
		}
		e.Obls = append(e.Obls, &Obligation{Name: oname, Kind: "structural", Func: oname, Goal: True, Clause: fmt.Sprintf("%s (%d call sites, %d constants, %d non-constant arguments; %d functions scanned)", sc.Text, sites, len(emitted), dynamic, n), Where: where})
	case "no_stores_into":
		// no_stores_into TYPE in PKG@prefix1|prefix2
		// No function of PKG (with one of the prefixes) stores through a pointer to TYPE (a field
		// write such as value.Exponent = 0, or *value = ...): arguments of that type are only read.
		if len(f) < 4 || f[2] != "in" {
			fail("no_stores_into TYPE in PKG@prefix|prefix")
			return
		}
		tname := f[1]
		var prefixes []string
		pk := f[3]
		if k := strings.Index(pk, "@"); k >= 0 {
			prefixes = strings.Split(pk[k+1:], "|")
			pk = pk[:k]
		}
		pkg := resolvePkg(pk)
		isT := func(t types.Type) bool {
			p, ok := t.Underlying().(*types.Pointer)
			if !ok {
				return false
			}
			return types.TypeString(p.Elem(), func(p *types.Package) string { return p.Path() }) == tname
		}
		var bad []string
		n := 0
		for _, fn := range fns {
			if pkgOf(fn) != pkg || len(fn.Blocks) == 0 {
				continue
			}
			sk := shortKey(funcKey(fn))
			if len(prefixes) > 0 {
				okp := false
				for _, pf := range prefixes {
					if strings.HasPrefix(sk, pf) {
						okp = true
					}
				}
				if !okp {
					continue
				}
			}
			n++
			for _, b := range fn.Blocks {
				for _, in := range b.Instrs {
					st, ok := in.(*ssa.Store)
					if !ok {
						continue
					}
					hit := isT(st.Addr.Type())
					if fa, ok := st.Addr.(*ssa.FieldAddr); ok && isT(fa.X.Type()) {
						hit = true
					}
					if hit {
						bad = append(bad, sk)
					}
				}
			}
		}
		if n == 0 {
			fail("no functions matched in " + pkg)
			return
		}
		if len(bad) > 0 {
			sort.Strings(bad)
			fail("stores through a pointer to " + tname + " in: " + strings.Join(bad, "; "))
			return
		}
		e.Obls = append(e.Obls, &Obligation{Name: oname, Kind: "structural", Func: oname, Goal: True, Clause: fmt.Sprintf("%s (%d functions scanned)", sc.Text, n), Where: where})
	case "only_writers":
		// only_writers PKGNAME.TYPE.FIELD in PKG: FUNC...
		// The field is stored to only in the listed functions (so every other function, in particular
		// every implementation behind an interface, leaves it as it is).
		if len(f) < 4 || f[2] != "in" {
			fail("only_writers PKGNAME.TYPE.FIELD in PKG: FUNC...")
			return
		}
		parts := strings.Split(f[1], ".")
		if len(parts) != 3 {
			fail("only_writers needs PKGNAME.TYPE.FIELD")
			return
		}
		pkg := resolvePkg(strings.TrimSuffix(f[3], ":"))
		allowed := map[string]bool{}
		for _, x := range f[4:] {
			allowed[strings.TrimSuffix(x, ":")] = true
		}
		var bad []string
		n, sites := 0, 0
		for _, fn := range fns {
			if pkgOf(fn) != pkg || len(fn.Blocks) == 0 {
				continue
			}
			n++
			sk := shortKey(funcKey(fn))
			for _, b := range fn.Blocks {
				for _, in := range b.Instrs {
					st, ok := in.(*ssa.Store)
					if !ok {
						continue
					}
					fa, ok := st.Addr.(*ssa.FieldAddr)
					if !ok {
						continue
					}
					pt, ok := fa.X.Type().Underlying().(*types.Pointer)
					if !ok {
						continue
					}
					nt, ok := pt.Elem().(*types.Named)
					if !ok || nt.Obj().Pkg() == nil || nt.Obj().Pkg().Name() != parts[0] || nt.Obj().Name() != parts[1] {
						continue
					}
					stt, ok := nt.Underlying().(*types.Struct)
					if !ok || stt.Field(fa.Field).Name() != parts[2] {
						continue
					}
					sites++
					if !allowed[sk] {
						bad = append(bad, sk)
					}
				}
			}
		}
		if n == 0 {
			fail("package " + pkg + " has no functions loaded")
			return
		}
		if sites == 0 {
			fail("no store to " + f[1] + " found in " + pkg + " (wrong field name?)")
			return
		}
		if len(bad) > 0 {
			sort.Strings(bad)
			fail(f[1] + " is also written in: " + strings.Join(bad, "; "))
			return
		}
		e.Obls = append(e.Obls, &Obligation{Name: oname, Kind: "structural", Func: oname, Goal: True, Clause: fmt.Sprintf("%s (%d stores in %d functions)", sc.Text, sites, n), Where: where})
	case "not_reachable":
		// not_reachable METHOD in PKG: FUNC...
		// From no method named METHOD of the package (the implementations behind an interface method)
		// is one of the listed functions reachable. The call graph is over-approximated: static calls,
		// closures and function values mentioned are followed; an interface call reaches every method
		// of the module with that name; a call through a function value reaches every function of the
		// module whose value is taken anywhere. Functions outside the module are not entered (they
		// cannot call unexported functions of the package, and the listed ones must be unexported or
		// are checked by name anyway when a module function passes them along as values).
		if len(f) < 4 || f[2] != "in" {
			fail("not_reachable METHOD in PKG: FUNC...")
			return
		}
		pkg := resolvePkg(strings.TrimSuffix(f[3], ":"))
		forbidden := map[string]bool{}
		for _, x := range f[4:] {
			forbidden[strings.TrimSuffix(x, ":")] = true
		}
		inModule := func(fn *ssa.Function) bool {
			return strings.HasPrefix(pkgOf(fn), ModulePath) && len(fn.Blocks) > 0
		}
		byName := map[string][]*ssa.Function{}
		var taken []*ssa.Function
		isTaken := map[*ssa.Function]bool{}
		for _, fn := range fns {
			if !inModule(fn) {
				continue
			}
			if fn.Signature.Recv() != nil {
				byName[fn.Name()] = append(byName[fn.Name()], fn)
			}
			for _, b := range fn.Blocks {
				for _, in := range b.Instrs {
					var callee ssa.Value
					if ci, ok := in.(ssa.CallInstruction); ok && !ci.Common().IsInvoke() {
						callee = ci.Common().Value
					}
					for _, op := range in.Operands(nil) {
						if op == nil || *op == nil {
							continue
						}
						if g, ok := (*op).(*ssa.Function); ok && *op != callee && !isTaken[g] {
							isTaken[g] = true
							taken = append(taken, g)
						}
						if mc, ok := (*op).(*ssa.MakeClosure); ok {
							if g, ok := mc.Fn.(*ssa.Function); ok && !isTaken[g] {
								isTaken[g] = true
								taken = append(taken, g)
							}
						}
					}
				}
			}
		}
		var roots []*ssa.Function
		for _, fn := range byName[f[1]] {
			if pkgOf(fn) == pkg {
				roots = append(roots, fn)
			}
		}
		if len(roots) == 0 {
			fail("no method named " + f[1] + " in " + pkg)
			return
		}
		found := map[string]bool{}
		for k := range forbidden {
			found[k] = false
		}
		for _, fn := range fns {
			if pkgOf(fn) == pkg {
				if _, ok := found[shortKey(funcKey(fn))]; ok {
					found[shortKey(funcKey(fn))] = true
				}
			}
		}
		for k, ok := range found {
			if !ok {
				fail("listed function " + k + " does not exist in " + pkg)
				return
			}
		}
		from := map[*ssa.Function]*ssa.Function{}
		var work []*ssa.Function
		push := func(g, parent *ssa.Function) {
			if g == nil {
				return
			}
			if _, seen := from[g]; seen {
				return
			}
			from[g] = parent
			work = append(work, g)
		}
		for _, r := range roots {
			push(r, nil)
		}
		var bad []string
		for len(work) > 0 {
			fn := work[0]
			work = work[1:]
			if pkgOf(fn) == pkg && forbidden[shortKey(funcKey(fn))] {
				chain := shortKey(funcKey(fn))
				for p := from[fn]; p != nil; p = from[p] {
					chain = shortKey(funcKey(p)) + " -> " + chain
				}
				bad = append(bad, chain)
				continue
			}
			if !inModule(fn) {
				continue
			}
			for _, af := range fn.AnonFuncs {
				push(af, fn)
			}
			for _, b := range fn.Blocks {
				for _, in := range b.Instrs {
					for _, op := range in.Operands(nil) {
						if op == nil || *op == nil {
							continue
						}
						if g, ok := (*op).(*ssa.Function); ok {
							push(g, fn)
						}
					}
					ci, ok := in.(ssa.CallInstruction)
					if !ok {
						continue
					}
					c := ci.Common()
					if c.IsInvoke() {
						for _, g := range byName[c.Method.Name()] {
							push(g, fn)
						}
						continue
					}
					if c.StaticCallee() != nil {
						push(c.StaticCallee(), fn)
						continue
					}
					if _, isBuiltin := c.Value.(*ssa.Builtin); isBuiltin {
						continue
					}
					for _, g := range taken {
						if types.Identical(g.Signature.Params(), c.Signature().Params()) && types.Identical(g.Signature.Results(), c.Signature().Results()) {
							push(g, fn)
						}
					}
				}
			}
		}
		if len(bad) > 0 {
			sort.Strings(bad)
			fail("reachable from an implementation of " + f[1] + ": " + strings.Join(bad, "; "))
			return
		}
		e.Obls = append(e.Obls, &Obligation{Name: oname, Kind: "structural", Func: oname, Goal: True, Clause: fmt.Sprintf("%s (%d implementations, %d functions reachable)", sc.Text, len(roots), len(from)), Where: where})
	default:
		fail("unknown structural check " + f[0])
	}
}
