package vc

// fp.go: floating point is carried as IEEE bit patterns (bit-vectors); operations go through
// the SMT FloatingPoint theory and come back as a fresh bit pattern constrained by to_fp.

import (
	"fmt"
	"math"
	"math/big"
)

func f32bits(f float32) uint32 { return math.Float32bits(f) }
func f64bits(f float64) uint64 { return math.Float64bits(f) }

func fpSort(w int) *Sort {
	if w == 32 {
		return FP32
	}
	return FP64
}
func fpDims(w int) string {
	if w == 32 {
		return "8 24"
	}
	return "11 53"
}

// toFP reinterprets a bit pattern as a floating-point number.
func toFP(bits *Term) *Term {
	w := bits.Sort.Width
	return FPOp("(_ to_fp "+fpDims(w)+")", fpSort(w), bits)
}

// fpToBits returns a bit pattern b with to_fp(b) == f (for NaN: some NaN pattern).
func fpToBits(f *Term, w int, assume func(*Term)) *Term {
	// fold: to_fp of a known pattern (identity)
	if f.Op == "fp:(_ to_fp "+fpDims(w)+")" && len(f.Args) == 1 && f.Args[0].Sort.Kind == SBV {
		return f.Args[0]
	}
	b := App(fmt.Sprintf("fpbits%d", w), BV(w), f)
	assume(Eq(toFP(b), f))
	return b
}

func fpIsNaN(bits *Term) *Term { return FPOp("fp.isNaN", BoolSort, toFP(bits)) }
func fpIsInf(bits *Term) *Term { return FPOp("fp.isInfinite", BoolSort, toFP(bits)) }

func fpConst64(f float64) *Term { return toFP(BVU(f64bits(f), 64)) }

// fpToInt models float -> integer conversion: exact (truncation toward zero) when the truncated
// value is representable in the destination, otherwise an unconstrained result (Go leaves it
// implementation-defined; every implementation is covered).
func fpToInt(bits *Term, fw, tw int, signed bool, assume func(*Term)) *Term {
	x := toFP(bits)
	if fw == 32 {
		x = FPOp("(_ to_fp 11 53)", FP64, RNE, x)
	}
	var lo, hi *Term // lo < x (or lo <= x) && x < hi
	pow := func(k int) float64 { return math.Ldexp(1, k) }
	var inRange *Term
	if signed {
		hi = fpConst64(pow(tw - 1))
		if tw == 64 {
			lo = fpConst64(-pow(63))
			inRange = And(FPOp("fp.geq", BoolSort, x, lo), FPOp("fp.lt", BoolSort, x, hi))
		} else {
			lo = fpConst64(-pow(tw-1) - 1)
			inRange = And(FPOp("fp.gt", BoolSort, x, lo), FPOp("fp.lt", BoolSort, x, hi))
		}
	} else {
		hi = fpConst64(pow(tw))
		lo = fpConst64(-1)
		inRange = And(FPOp("fp.gt", BoolSort, x, lo), FPOp("fp.lt", BoolSort, x, hi))
	}
	r := Fresh("fp2int", BV(tw))
	op := fmt.Sprintf("(_ fp.to_ubv %d)", tw)
	if signed {
		op = fmt.Sprintf("(_ fp.to_sbv %d)", tw)
	}
	assume(Implies(inRange, Eq(r, FPOp(op, BV(tw), RTZ, x))))
	return r
}

// ---------------------------------------------------------------------------------------------
// maps

type MapState struct {
	Dom  *Term // Array K Bool
	Val  Value // lifted Array K .
	Card *Term // BV64
}

func bigPow2(k int) *big.Int { return new(big.Int).Lsh(big.NewInt(1), uint(k)) }
