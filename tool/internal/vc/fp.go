package vc

// fp.go: floating point is carried as IEEE bit patterns (bit-vectors); operations go through
// the SMT FloatingPoint theory and come back as a fresh bit pattern constrained by to_fp.

import (
	"fmt"
	"math"
	"math/big"
)

func f32bits(f float32) uint32 { return math.Float32bits(f) }
func f64bits(f float64) uint64 { return math.Float64bits(f) }

func fpSort(w int) *Sort {
	if w == 32 {
		return FP32
	}
	return FP64
}
func fpDims(w int) string {
	if w == 32 {
		return "8 24"
	}
	return "11 53"
}

// toFP reinterprets a bit pattern as a floating-point number.
func toFP(bits *Term) *Term {
	w := bits.Sort.Width
	return FPOp("(_ to_fp "+fpDims(w)+")", fpSort(w), bits)
}

// fpToBits returns a bit pattern b with to_fp(b) == f (for NaN: some NaN pattern).
func fpToBits(f *Term, w int, assume func(*Term)) *Term {
	// fold: to_fp of a known pattern (identity)
	if f.Op == "fp:(_ to_fp "+fpDims(w)+")" && len(f.Args) == 1 && f.Args[0].Sort.Kind == SBV {
		return f.Args[0]
	}
	b := App(fmt.Sprintf("fpbits%d", w), BV(w), f)
	assume(Eq(toFP(b), f))
	return b
}

func fpIsNaN(bits *Term) *Term { return FPOp("fp.isNaN", BoolSort, toFP(bits)) }
func fpIsInf(bits *Term) *Term { return FPOp("fp.isInfinite", BoolSort, toFP(bits)) }

func fpConst64(f float64) *Term { return toFP(BVU(f64bits(f), 64)) }

// cvtt models the x86 CVTTSD2SQ / CVTTSD2SL instruction on a float64 x: truncation toward zero
// when the result fits the signed w-bit destination, the "integer indefinite" value 0x80..0
// otherwise (NaN included). w is 32 or 64.
func cvtt(x *Term, w int, assume func(*Term)) *Term {
	pow := func(k int) float64 { return math.Ldexp(1, k) }
	hi := fpConst64(pow(w - 1))
	var inRange *Term
	if w == 64 {
		inRange = And(FPOp("fp.geq", BoolSort, x, fpConst64(-pow(63))), FPOp("fp.lt", BoolSort, x, hi))
	} else {
		inRange = And(FPOp("fp.gt", BoolSort, x, fpConst64(-pow(w-1)-1)), FPOp("fp.lt", BoolSort, x, hi))
	}
	r := App(fmt.Sprintf("cvtt%d", w), BV(w), x)
	assume(Implies(inRange, Eq(r, FPOp(fmt.Sprintf("(_ fp.to_sbv %d)", w), BV(w), RTZ, x))))
	assume(Implies(Not(inRange), Eq(r, BVConst(bigPow2(w-1), w))))
	return r
}

// fpToInt models Go's float -> integer conversion as compiled for amd64 (assumption A-FPCONV):
//   int64:          CVTTSD2SQ
//   int32/16/8:     CVTTSD2SL, then truncation
//   uint32:         CVTTSD2SQ, then truncation
//   uint16/8:       CVTTSD2SL, then truncation
//   uint64:         x < 2^63 ? CVTTSD2SQ(x) : CVTTSD2SQ(x - 2^63) ^ 0x8000000000000000
// Exact (truncation toward zero) whenever the truncated value is representable; the
// out-of-range results are the ones the hardware produces.
func fpToInt(bits *Term, fw, tw int, signed bool, assume func(*Term)) *Term {
	x := toFP(bits)
	if fw == 32 {
		x = FPOp("(_ to_fp 11 53)", FP64, RNE, x)
	}
	switch {
	case signed && tw == 64:
		return cvtt(x, 64, assume)
	case signed:
		return Extract(tw-1, 0, cvtt(x, 32, assume))
	case tw == 64:
		two63 := fpConst64(math.Ldexp(1, 63))
		small := FPOp("fp.lt", BoolSort, x, two63)
		a := cvtt(x, 64, assume)
		shifted := FPOp("fp.sub", FP64, RNE, x, two63)
		b := BVBin("bvxor", cvtt(shifted, 64, assume), BVConst(bigPow2(63), 64))
		return Ite(small, a, b)
	case tw == 32:
		return Extract(31, 0, cvtt(x, 64, assume))
	default:
		return Extract(tw-1, 0, cvtt(x, 32, assume))
	}
}

// ---------------------------------------------------------------------------------------------
// maps

type MapState struct {
	Dom  *Term // Array K Bool
	Val  Value // lifted Array K .
	Card *Term // BV64
}

func bigPow2(k int) *big.Int { return new(big.Int).Lsh(big.NewInt(1), uint(k)) }
