package vc

// exec.go: symbolic execution of go/ssa functions, one path at a time, with callees replaced by
// their contracts, loops cut at invariants (or unrolled with an unwinding assertion), and
// defer/recover modelled as go/ssa documents it.

import (
	"fmt"
	"go/constant"
	"go/token"
	"go/types"
	"math/big"
	"sort"
	"strings"

	"golang.org/x/tools/go/ssa"
)

type deferred struct {
	call  *ssa.CallCommon
	fnVal Value
	args  []Value
	instr *ssa.Defer
}

type Frame struct {
	id        int
	fn        *ssa.Function
	env       map[ssa.Value]Value
	block     *ssa.BasicBlock
	pred      *ssa.BasicBlock
	pc        int
	defers    []deferred
	mode      int // 0 normal, 1 running defers for rundefers instr, 2 unwinding panic
	panicked  bool
	recov     bool
	retDst    ssa.Value // value in the caller receiving the result
	isDefer   bool      // this frame runs a deferred call of the frame below
	autoInl   bool      // entered by automatic inlining of a contract-less helper
	top       bool
	bind      []Value
	visits    map[int]int // loop header block index -> visits
	ct        *Contract   // contract providing loop specs for this frame (nil: none)
	lets      map[string]TV
	loopPre   map[int]*State // loop ordinal -> state at loop entry (before havoc)
	variant   map[int]*Term
	iterStart map[int]*State // loop ordinal -> state at the start of the current iteration (after havoc + invariants)
}

func (f *Frame) clone() *Frame {
	n := *f
	n.env = make(map[ssa.Value]Value, len(f.env))
	for k, v := range f.env {
		n.env[k] = v
	}
	n.defers = append([]deferred(nil), f.defers...)
	n.visits = make(map[int]int, len(f.visits))
	for k, v := range f.visits {
		n.visits[k] = v
	}
	n.loopPre = make(map[int]*State, len(f.loopPre))
	for k, v := range f.loopPre {
		n.loopPre[k] = v
	}
	n.variant = make(map[int]*Term, len(f.variant))
	for k, v := range f.variant {
		n.variant[k] = v
	}
	n.iterStart = make(map[int]*State, len(f.iterStart))
	for k, v := range f.iterStart {
		n.iterStart[k] = v
	}
	return &n
}

type Path struct {
	st    *State
	stack []*Frame
	done  bool
	// iteration-start snapshots of the loops of the function under verification that the path is
	// currently inside (used by xstep clauses when the function exits by panicking)
	topIter map[int]*State
}

func (p *Path) clone() *Path {
	n := &Path{st: p.st.Clone(), stack: make([]*Frame, len(p.stack))}
	for i, f := range p.stack {
		n.stack[i] = f.clone()
	}
	if len(p.topIter) > 0 {
		n.topIter = make(map[int]*State, len(p.topIter))
		for k, v := range p.topIter {
			n.topIter[k] = v
		}
	}
	return n
}

func (p *Path) top() *Frame { return p.stack[len(p.stack)-1] }

type execErr string

func execFail(f string, a ...interface{}) { panic(execErr(fmt.Sprintf(f, a...))) }

func (e *Engine) newFrame(fn *ssa.Function, args []Value, bind []Value) *Frame {
	e.nextFrame++
	fr := &Frame{id: e.nextFrame, fn: fn, env: map[ssa.Value]Value{}, visits: map[int]int{}, bind: bind, loopPre: map[int]*State{}, variant: map[int]*Term{}, iterStart: map[int]*State{}}
	for i, p := range fn.Params {
		if i < len(args) {
			fr.env[p] = args[i]
		}
	}
	for i, fv := range fn.FreeVars {
		if i < len(bind) {
			fr.env[fv] = bind[i]
		}
	}
	if len(fn.Blocks) > 0 {
		fr.block = fn.Blocks[0]
	}
	return fr
}

type exitFn func(p *Path, normal bool, results []Value)

// runPaths explores all paths starting from p; onExit is called when the bottom frame leaves.
func (e *Engine) runPaths(p *Path, onExit exitFn) {
	work := []*Path{p}
	for len(work) > 0 {
		cur := work[len(work)-1]
		work = work[:len(work)-1]
		e.paths++
		if e.paths > e.MaxPaths {
			execFail("path explosion (> %d paths)", e.MaxPaths)
		}
		steps := 0
		for !cur.done && !cur.st.Dead {
			steps++
			if (steps > 200000 && !e.inInit) || steps > 20000000 {
				execFail("path too long (missing loop invariant?)")
			}
			forks := e.step(cur, onExit)
			work = append(work, forks...)
		}
	}
}

// ---------------------------------------------------------------------------------------------

func (e *Engine) oblName(kind, detail string) string {
	fn := "?"
	if e.curFn != nil {
		fn = shortFuncName(e.curFn)
	}
	return fn + "#" + kind + ":" + detail
}

func shortFuncName(fn *ssa.Function) string {
	k := funcKey(fn)
	k = strings.TrimPrefix(k, ModulePath+"/")
	return strings.Replace(k, "::", ".", 1)
}

func (e *Engine) posOf(pos token.Pos) string {
	if !pos.IsValid() {
		return ""
	}
	p := e.prog.Fset.Position(pos)
	f := strings.TrimPrefix(p.Filename, e.RepoDir+"/")
	return fmt.Sprintf("%s:%d", f, p.Line)
}

// oblige records an obligation under the current path condition and then assumes the goal.
func (e *Engine) oblige(p *Path, kind, detail string, pos token.Pos, goal *Term, clause string) {
	if goal == True {
		return
	}
	if e.inInit {
		return
	}
	// runtime panics inside functions that allow them become exceptional paths elsewhere; here plain obligation
	o := &Obligation{Name: e.oblName(kind, detail), Kind: kind, Func: shortFuncName(e.curFn), Detail: detail, Where: e.posOf(pos),
		Assume: append([]*Term(nil), p.st.PC...), Goal: goal, Clause: clause, Vars: e.inputVars}
	e.Obls = append(e.Obls, o)
	if st, ok := e.FuncStats[o.Func]; ok {
		st.Obls++
	}
	p.st.Assume(goal)
}

func (e *Engine) failObl(kind, detail, why string) {
	fn := "?"
	if e.curFn != nil {
		fn = shortFuncName(e.curFn)
	}
	e.Obls = append(e.Obls, &Obligation{Name: e.oblName(kind, detail), Kind: kind, Func: fn, Detail: detail, Failed: why})
}

// runtimePanic handles a potential run-time panic with condition ok (true = no panic).
func (e *Engine) runtimePanic(p *Path, what string, pos token.Pos, ok *Term) []*Path {
	if ok == True {
		return nil
	}
	if e.curCt != nil && (e.curCt.Havoc || e.curCt.RuntimePanics) {
		// run-time panics are exceptional paths (weakest assumption mode)
		var forks []*Path
		if ok != False {
			p2 := p.clone()
			p2.st.Assume(Not(ok))
			e.raisePanic(p2)
			forks = append(forks, p2)
			p.st.Assume(ok)
		} else {
			e.raisePanic(p)
		}
		return forks
	}
	line := e.posOf(pos)
	if k := strings.LastIndex(line, ":"); k >= 0 {
		line = line[k+1:]
	}
	e.oblige(p, "nopanic", what, pos, ok, "")
	return nil
}

func (e *Engine) get(fr *Frame, v ssa.Value) Value {
	switch x := v.(type) {
	case *ssa.Const:
		return e.constValue(x)
	case *ssa.Global:
		return &PtrV{Kind: PGlobal, Glob: x}
	case *ssa.Function:
		return &FuncV{Fn: x}
	case *ssa.Builtin:
		return &OpaqueV{Why: "builtin"}
	}
	if r, ok := fr.env[v]; ok {
		return r
	}
	execFail("value %s (%T) undefined on this path in %s", v.Name(), v, fr.fn)
	return nil
}

func (e *Engine) constValue(c *ssa.Const) Value {
	t := c.Type()
	if c.Value == nil {
		return zeroOf(t)
	}
	switch u := t.Underlying().(type) {
	case *types.Basic:
		switch {
		case u.Info()&types.IsBoolean != 0:
			return Bool(constant.BoolVal(c.Value))
		case u.Info()&types.IsInteger != 0:
			bi, _ := new(big.Int).SetString(constant.ToInt(c.Value).ExactString(), 10)
			return BVConst(bi, intWidth(t))
		case u.Info()&types.IsFloat != 0:
			f, _ := constant.Float64Val(c.Value)
			if intWidth(t) == 32 {
				return BVU(uint64(f32bits(float32(f))), 32)
			}
			return BVU(f64bits(f), 64)
		case u.Info()&types.IsString != 0:
			return constString(constant.StringVal(c.Value))
		}
	}
	return &OpaqueV{Why: "constant of type " + t.String()}
}

func (e *Engine) term(fr *Frame, v ssa.Value) *Term {
	x := e.get(fr, v)
	t, ok := x.(*Term)
	if !ok {
		execFail("scalar expected for %s in %s, got %s", v.Name(), fr.fn, describeValue(x))
	}
	return t
}

func (e *Engine) int64Of(fr *Frame, v ssa.Value) *Term {
	t := e.term(fr, v)
	if t.Sort.Kind != SBV {
		execFail("integer expected for %s", v.Name())
	}
	if t.Sort.Width == 64 {
		return t
	}
	if isSigned(v.Type()) {
		return SignExt(t, 64)
	}
	return ZeroExt(t, 64)
}

func (e *Engine) newRef(st *State, hint string) *Term {
	if e.inInit {
		e.initRefs++
		r := BVU(0x7000000000000000+e.initRefs<<24, 64)
		return r
	}
	r := Fresh("ref:"+hint, RefSort)
	st.Assume(And(Ne(r, BVU(0, 64)), Not(Select(st.Alloc, r))))
	st.Alloc = Store(st.Alloc, r, True)
	return r
}

// allocSubObjects marks the embedded aggregate fields of a newly allocated object as newly
// allocated too (their addresses sub!key(ref) are part of the same allocation).
func (e *Engine) allocSubObjects(st *State, t types.Type, ref *Term) {
	u, ok := t.Underlying().(*types.Struct)
	if !ok || e.inInit {
		return
	}
	for i := 0; i < u.NumFields(); i++ {
		key, f := fieldKey(t, i)
		if !isAggregate(f.Type()) || f.Name() == "_" {
			continue
		}
		s := subRef(key, ref)
		st.Assume(And(Ne(s, BVU(0, 64)), Not(Select(st.Alloc, s))))
		st.Alloc = Store(st.Alloc, s, True)
		e.allocSubObjects(st, f.Type(), s)
	}
}

// ---------------------------------------------------------------------------------------------
// memory access through pointers

func (e *Engine) load(p *Path, addr Value, t types.Type, pos token.Pos) (Value, []*Path) {
	st := p.st
	switch a := addr.(type) {
	case *PtrV:
		switch a.Kind {
		case PCell:
			v, ok := st.Cells[a.Cell]
			if !ok {
				execFail("read of undefined cell")
			}
			return v, nil
		case PField:
			h := st.Heap(a.Key, a.FT)
			v := mapLeaves(h, func(t *Term) *Term { return Select(t, a.Ref) })
			st.assumeWF(v, a.FT)
			e.assumeAllocated(st, v, a.FT)
			return v, nil
		case PElem:
			v := st.LoadElem(a.FT, a.Arr, a.Idx)
			tt := a.FT
			for _, i := range a.Path {
				v = v.(*StructV).F[i]
				tt = tt.Underlying().(*types.Struct).Field(i).Type()
			}
			e.assumeAllocated(st, v, tt)
			return v, nil
		case PGlobal:
			return e.loadGlobal(st, a.Glob), nil
		}
	case *Term:
		// pointer to struct/array object, or pointer to scalar kept in a deref heap
		forks := e.runtimePanic(p, "nil-deref", pos, Ne(a, BVU(0, 64)))
		if isAggregate(t) {
			return st.LoadObject(t, a), forks
		}
		key := "*" + typeKey(t)
		h := st.Heap(key, t)
		v := mapLeaves(h, func(x *Term) *Term { return Select(x, a) })
		st.assumeWF(v, t)
		return v, forks
	case *OpaqueV:
		return &OpaqueV{Why: "load through " + a.Why}, nil
	}
	execFail("load through unsupported address %s", describeValue(addr))
	return nil, nil
}

// assumeAllocated: references stored in the heap point to allocated objects.
func (e *Engine) assumeAllocated(st *State, v Value, t types.Type) {
	if e.inInit {
		return
	}
	switch x := v.(type) {
	case SliceV:
		st.Assume(Select(st.Alloc, x.Arr))
	case *Term:
		if _, ok := t.Underlying().(*types.Pointer); ok {
			st.Assume(Or(Eq(x, BVU(0, 64)), Select(st.Alloc, x)))
		}
	}
}

func (e *Engine) store(p *Path, addr Value, v Value, t types.Type, pos token.Pos) []*Path {
	st := p.st
	if fv, ok := v.(*FuncV); ok {
		if _, isSig := t.Underlying().(*types.Signature); isSig {
			if _, cell := addr.(*PtrV); !cell || addr.(*PtrV).Kind != PCell {
				v = closureRef(fv)
			}
		}
	}
	switch a := addr.(type) {
	case *PtrV:
		switch a.Kind {
		case PCell:
			st.Cells[a.Cell] = v
			return nil
		case PField:
			if _, op := v.(*OpaqueV); op {
				h := st.Heap(a.Key, a.FT)
				fresh := freshOf("opq", a.FT, nil, false)
				st.Heaps[a.Key] = zipLeaves(h, fresh, func(x, y *Term) *Term { return Store(x, a.Ref, y) })
				return nil
			}
			h := st.Heap(a.Key, a.FT)
			st.Heaps[a.Key] = zipLeaves(h, v, func(x, y *Term) *Term { return Store(x, a.Ref, y) })
			return nil
		case PElem:
			if len(a.Path) == 0 {
				if _, op := v.(*OpaqueV); op {
					return nil
				}
				st.StoreElem(a.FT, a.Arr, a.Idx, v)
				return nil
			}
			cur := st.LoadElem(a.FT, a.Arr, a.Idx)
			st.StoreElem(a.FT, a.Arr, a.Idx, setPath(cur, a.Path, v))
			return nil
		case PGlobal:
			if !e.inInit && e.cs.ConstGl[globKey(a.Glob)] {
				e.failObl("frame", "const-global-write:"+a.Glob.Name(), "write to const_global")
			}
			e.storeGlobal(st, a.Glob, v)
			return nil
		}
	case *Term:
		forks := e.runtimePanic(p, "nil-deref", pos, Ne(a, BVU(0, 64)))
		if isAggregate(t) {
			st.StoreObject(t, a, v)
			return forks
		}
		key := "*" + typeKey(t)
		h := st.Heap(key, t)
		st.Heaps[key] = zipLeaves(h, v, func(x, y *Term) *Term { return Store(x, a, y) })
		return forks
	case *OpaqueV:
		return nil
	}
	execFail("store through unsupported address %s", describeValue(addr))
	return nil
}

func setPath(v Value, path []int, nv Value) Value {
	if len(path) == 0 {
		return nv
	}
	sv := v.(*StructV)
	o := &StructV{F: append([]Value(nil), sv.F...)}
	o.F[path[0]] = setPath(sv.F[path[0]], path[1:], nv)
	return o
}

// ---------------------------------------------------------------------------------------------
// blocks, loops

type loopInfo struct {
	header  *ssa.BasicBlock
	ordinal int
	body    map[*ssa.BasicBlock]bool
}

var loopCache = map[*ssa.Function][]*loopInfo{}

func loopsOf(fn *ssa.Function) []*loopInfo {
	if l, ok := loopCache[fn]; ok {
		return l
	}
	var out []*loopInfo
	for _, b := range fn.Blocks {
		var backs []*ssa.BasicBlock
		for _, pr := range b.Preds {
			if b.Dominates(pr) {
				backs = append(backs, pr)
			}
		}
		if len(backs) == 0 {
			continue
		}
		li := &loopInfo{header: b, body: map[*ssa.BasicBlock]bool{b: true}}
		work := append([]*ssa.BasicBlock(nil), backs...)
		for len(work) > 0 {
			x := work[len(work)-1]
			work = work[:len(work)-1]
			if li.body[x] {
				continue
			}
			li.body[x] = true
			work = append(work, x.Preds...)
		}
		out = append(out, li)
	}
	sort.Slice(out, func(i, j int) bool { return out[i].header.Index < out[j].header.Index })
	for i, l := range out {
		l.ordinal = i
	}
	loopCache[fn] = out
	return out
}

var reachRetCache = map[*ssa.BasicBlock]bool{}

// canReachReturn: some path from b reaches a return instruction (blocks that only lead to panics do not).
func canReachReturn(b *ssa.BasicBlock) bool {
	if v, ok := reachRetCache[b]; ok {
		return v
	}
	seen := map[*ssa.BasicBlock]bool{}
	var dfs func(x *ssa.BasicBlock) bool
	dfs = func(x *ssa.BasicBlock) bool {
		if seen[x] {
			return false
		}
		seen[x] = true
		if len(x.Instrs) > 0 {
			if _, ok := x.Instrs[len(x.Instrs)-1].(*ssa.Return); ok {
				return true
			}
		}
		for _, s := range x.Succs {
			if dfs(s) {
				return true
			}
		}
		return false
	}
	r := dfs(b)
	reachRetCache[b] = r
	return r
}

func loopAt(fn *ssa.Function, b *ssa.BasicBlock) *loopInfo {
	for _, l := range loopsOf(fn) {
		if l.header == b {
			return l
		}
	}
	return nil
}

// enterBlock transfers control of the top frame to block b.
func phisOf(b *ssa.BasicBlock) []*ssa.Phi {
	var phis []*ssa.Phi
	for _, in := range b.Instrs {
		if ph, ok := in.(*ssa.Phi); ok {
			phis = append(phis, ph)
		} else {
			break
		}
	}
	return phis
}

// phiVals evaluates the phis of b for the edge from -> b.
func (e *Engine) phiVals(fr *Frame, b, from *ssa.BasicBlock) []Value {
	phis := phisOf(b)
	predIdx := -1
	for i, pr := range b.Preds {
		if pr == from {
			predIdx = i
		}
	}
	vals := make([]Value, len(phis))
	for i, ph := range phis {
		if predIdx < 0 {
			execFail("phi without matching predecessor")
		}
		vals[i] = e.get(fr, ph.Edges[predIdx])
	}
	return vals
}

func (e *Engine) enterBlock(p *Path, fr *Frame, b *ssa.BasicBlock) {
	e.enterBlockVals(p, fr, b, fr.block, e.phiVals(fr, b, fr.block))
}

// pureJumpBlock: a block with a single predecessor that only computes side-effect-free,
// non-panicking values and jumps to j.
func pureJumpBlock(b, j *ssa.BasicBlock) bool {
	if len(b.Preds) != 1 || len(b.Succs) != 1 || b.Succs[0] != j {
		return false
	}
	for _, in := range b.Instrs {
		switch x := in.(type) {
		case *ssa.DebugRef, *ssa.Jump, *ssa.Convert, *ssa.ChangeType, *ssa.Extract, *ssa.Field:
		case *ssa.BinOp:
			if x.Op == token.QUO || x.Op == token.REM {
				return false
			}
		case *ssa.UnOp:
			if x.Op == token.MUL || x.Op == token.ARROW {
				return false
			}
		default:
			return false
		}
	}
	return true
}

func canIte(a, b Value) bool {
	switch a.(type) {
	case *PtrV, *FuncV, *OpaqueV, nil:
		return false
	}
	switch b.(type) {
	case *PtrV, *FuncV, *OpaqueV, nil:
		return false
	}
	ok := true
	func() {
		defer func() {
			if recover() != nil {
				ok = false
			}
		}()
		zipLeaves(a, b, func(x, y *Term) *Term {
			if x.Sort != y.Sort {
				ok = false
			}
			return x
		})
	}()
	return ok
}

// tryMerge performs if-conversion of triangles and diamonds whose arms are pure: the two arms
// are executed on one path and the phis of the join block become ite terms.
func (e *Engine) tryMerge(p *Path, fr *Frame, c *Term, tb, fb *ssa.BasicBlock) bool {
	cur := fr.block
	var j *ssa.BasicBlock
	var tFrom, fFrom *ssa.BasicBlock
	switch {
	case pureJumpBlock(tb, fb):
		j, tFrom, fFrom = fb, tb, cur
	case pureJumpBlock(fb, tb):
		j, tFrom, fFrom = tb, cur, fb
	case len(tb.Succs) == 1 && pureJumpBlock(tb, tb.Succs[0]) && pureJumpBlock(fb, tb.Succs[0]):
		j, tFrom, fFrom = tb.Succs[0], tb, fb
	default:
		return false
	}
	if li := loopAt(fr.fn, j); li != nil {
		if li.body[tFrom] != li.body[fFrom] {
			return false
		}
	}
	for _, side := range []*ssa.BasicBlock{tFrom, fFrom} {
		if side == cur {
			continue
		}
		for _, in := range side.Instrs {
			switch in.(type) {
			case *ssa.DebugRef, *ssa.Jump:
				continue
			}
			if forks := e.execInstr(p, fr, in, nil); len(forks) > 0 {
				execFail("internal: pure block forked")
			}
		}
	}
	tv := e.phiVals(fr, j, tFrom)
	fv := e.phiVals(fr, j, fFrom)
	vals := make([]Value, len(tv))
	for i := range tv {
		if !canIte(tv[i], fv[i]) {
			return false
		}
		vals[i] = valueIte(c, tv[i], fv[i])
	}
	e.enterBlockVals(p, fr, j, tFrom, vals)
	return true
}

func (e *Engine) enterBlockVals(p *Path, fr *Frame, b, from *ssa.BasicBlock, vals []Value) {
	phis := phisOf(b)
	if fr.top && len(p.topIter) > 0 {
		// leaving a loop for good: a block outside its body from which the function can still return
		for _, l := range loopsOf(fr.fn) {
			if _, in := p.topIter[l.ordinal]; in && !l.body[b] && canReachReturn(b) {
				delete(p.topIter, l.ordinal)
			}
		}
	}
	li := loopAt(fr.fn, b)
	var spec *LoopSpec
	if li != nil && fr.ct != nil {
		spec = fr.ct.Loops[li.ordinal]
	}
	if li != nil && !e.inInit {
		isBack := li.body[from]
		if spec == nil || (spec.Unroll == 0 && len(spec.Invariants) == 0) {
			// inlined frames and unspecified loops: unroll up to a default with a hard failure if exceeded
			if fr.top {
				e.failObl("loop", fmt.Sprintf("%d", li.ordinal), "loop without invariant or unroll bound")
				p.done = true
				return
			}
			spec = &LoopSpec{Unroll: 64}
		}
		if spec.Unroll > 0 {
			if isBack {
				fr.visits[b.Index]++
				if fr.visits[b.Index] > spec.Unroll {
					// unwinding assertion: this path must be infeasible
					e.oblige(p, "unwind", fmt.Sprintf("loop%d<=%d", li.ordinal, spec.Unroll), b.Instrs[0].Pos(), False, "")
					p.done = true
					return
				}
			} else {
				fr.visits[b.Index] = 0
			}
		} else {
			// invariant cut
			for i, ph := range phis {
				fr.env[ph] = vals[i]
			}
			fr.pred, fr.block, fr.pc = from, b, len(phis)
			if isBack {
				e.checkInvariants(p, fr, li, spec, "inv-pres")
				if spec.Decreases != nil {
					e.checkDecreases(p, fr, li, spec)
				}
				e.checkSteps(p, fr, li, spec)
				p.done = true
				return
			}
			e.checkInvariants(p, fr, li, spec, "inv-init")
			// havoc
			for _, ph := range phis {
				nv := freshOf("loop:"+ph.Comment, ph.Type(), nil, false)
				p.st.assumeWF(nv, ph.Type())
				fr.env[ph] = nv
			}
			pre := p.st.Clone()
			for _, m := range spec.Modifies {
				e.havocList(p.st, e.loopCtx(p, fr, li, pre), m)
			}
			if spec.Decreases != nil {
				ctx := e.loopCtx(p, fr, li, pre)
				if tv, err := ctx.Eval(spec.Decreases.E); err == nil {
					if t, ok := tv.V.(*Term); ok {
						fr.variant[li.ordinal] = ZeroExt(t, 64)
					}
				}
			}
			fr.loopPre[li.ordinal] = pre
			ctx := e.loopCtx(p, fr, li, pre)
			for _, inv := range spec.Invariants {
				t, err := ctx.EvalBool(inv.E)
				if err != nil {
					e.failObl("resolve", fmt.Sprintf("loop%d-invariant", li.ordinal), err.Error()+" at "+inv.Where())
					p.done = true
					return
				}
				p.st.Assume(t)
			}
			if len(spec.Steps) > 0 || len(spec.XSteps) > 0 {
				snap := p.st.Clone()
				fr.iterStart[li.ordinal] = snap
				if fr.top {
					if p.topIter == nil {
						p.topIter = map[int]*State{}
					}
					p.topIter[li.ordinal] = snap
				}
			}
			return
		}
	}
	for i, ph := range phis {
		fr.env[ph] = vals[i]
	}
	fr.pred, fr.block, fr.pc = from, b, len(phis)
}

func (e *Engine) loopCtx(p *Path, fr *Frame, li *loopInfo, pre *State) *EvalCtx {
	// old() in invariants/variants/modifies of a loop of the function under verification is the
	// function's entry state (like in its postconditions), not the state just before the loop
	if fr.top && e.curEntry != nil && !e.inInit {
		pre = e.curEntry
	}
	ctx := e.funcCtx(p, fr, pre)
	ctx.lookup = func(name string) (TV, bool) {
		if tv, ok := e.resolveLocal(p, fr, li.header, name); ok {
			return tv, true
		}
		return TV{}, false
	}
	ctx.unknown = func(name string) (TV, bool) {
		if cur, ok := e.renamedLoopVar(fr.ct, fr, li, name); ok {
			return e.resolveLocal(p, fr, li.header, cur)
		}
		return TV{}, false
	}
	// a parameter that the loop reassigns: inside loop clauses its name means the current value (the
	// phi at the loop header), and NAME0 the value the function was entered with
	for _, prm := range fr.fn.Params {
		var cur *ssa.Phi
		for _, b := range fr.fn.Blocks {
			if !(b == li.header || b.Dominates(li.header)) {
				continue
			}
			for _, in := range b.Instrs {
				ph, ok := in.(*ssa.Phi)
				if !ok {
					break
				}
				if ph.Comment == prm.Name() {
					if _, defined := fr.env[ph]; defined && (cur == nil || cur.Block().Dominates(b)) {
						cur = ph
					}
				}
			}
		}
		if cur != nil {
			if ev, has := ctx.env[prm.Name()]; has {
				ctx.env[prm.Name()+"0"] = ev
			}
			ctx.env[prm.Name()] = TV{V: fr.env[cur], T: cur.Type()}
		}
	}
	return ctx
}

func (e *Engine) checkInvariants(p *Path, fr *Frame, li *loopInfo, spec *LoopSpec, kind string) {
	pre := fr.loopPre[li.ordinal]
	if pre == nil {
		pre = p.st
	}
	ctx := e.loopCtx(p, fr, li, pre)
	for i, inv := range spec.Invariants {
		t, err := ctx.EvalBool(inv.E)
		if err != nil {
			e.failObl("resolve", fmt.Sprintf("loop%d-invariant%d", li.ordinal, i), err.Error()+" at "+inv.Where())
			continue
		}
		e.oblige(p, kind, fmt.Sprintf("loop%d.%d", li.ordinal, i), li.header.Instrs[0].Pos(), t, inv.Text)
	}
}

// checkSteps checks the per-iteration two-state contracts of a loop at its back edge: old() in a
// step clause is the state at the start of the iteration (after the invariants were assumed).
func (e *Engine) checkSteps(p *Path, fr *Frame, li *loopInfo, spec *LoopSpec) {
	if len(spec.Steps) == 0 {
		return
	}
	st0 := fr.iterStart[li.ordinal]
	if st0 == nil {
		e.failObl("resolve", fmt.Sprintf("loop%d-step", li.ordinal), "no iteration-start snapshot")
		return
	}
	ctx := e.loopCtx(p, fr, li, st0)
	ctx.old = st0 // a step clause is about one iteration: old() is the start of this iteration
	for i, sc := range spec.Steps {
		t, err := ctx.EvalBool(sc.E)
		if err != nil {
			e.failObl("resolve", fmt.Sprintf("loop%d-step%d", li.ordinal, i), err.Error()+" at "+sc.Where())
			continue
		}
		e.oblige(p, "step", fmt.Sprintf("loop%d.%d", li.ordinal, i), li.header.Instrs[0].Pos(), t, sc.Text)
	}
}

func (e *Engine) checkDecreases(p *Path, fr *Frame, li *loopInfo, spec *LoopSpec) {
	old, ok := fr.variant[li.ordinal]
	if !ok {
		e.failObl("resolve", fmt.Sprintf("loop%d-decreases", li.ordinal), "variant could not be evaluated at loop entry")
		return
	}
	ctx := e.loopCtx(p, fr, li, p.st)
	tv, err := ctx.Eval(spec.Decreases.E)
	if err != nil {
		e.failObl("resolve", fmt.Sprintf("loop%d-decreases", li.ordinal), err.Error())
		return
	}
	nv := ZeroExt(tv.V.(*Term), 64)
	e.oblige(p, "decreases", fmt.Sprintf("loop%d", li.ordinal), li.header.Instrs[0].Pos(), BVCmp("bvult", nv, old), spec.Decreases.Text)
}

// resolveLocal finds the value of a source-level local variable visible at block at.
func (e *Engine) resolveLocal(p *Path, fr *Frame, at *ssa.BasicBlock, name string) (TV, bool) {
	// 1. phi at this header
	for _, in := range at.Instrs {
		if ph, ok := in.(*ssa.Phi); ok {
			if ph.Comment == name {
				if v, ok := fr.env[ph]; ok {
					return TV{V: v, T: ph.Type()}, true
				}
			}
		} else {
			break
		}
	}
	// 2. debug refs naming the variable, defined on this path; prefer the latest one that dominates `at`
	var best ssa.Value
	var bestAddr bool
	for _, b := range fr.fn.Blocks {
		if !(b == at || b.Dominates(at)) {
			continue
		}
		for _, in := range b.Instrs {
			dr, ok := in.(*ssa.DebugRef)
			if !ok {
				continue
			}
			obj := dr.Object()
			if obj == nil || obj.Name() != name {
				continue
			}
			if _, isVar := obj.(*types.Var); !isVar {
				continue
			}
			if b == at {
				// only phis of the header itself count (handled above) or values defined before
				if _, isPhi := dr.X.(*ssa.Phi); !isPhi {
					continue
				}
			}
			if _, defined := fr.env[dr.X]; defined || isConstLike(dr.X) {
				best = dr.X
				bestAddr = dr.IsAddr
			}
		}
	}
	if best == nil {
		// phis elsewhere with that comment that are defined
		for _, b := range fr.fn.Blocks {
			for _, in := range b.Instrs {
				if ph, ok := in.(*ssa.Phi); ok && ph.Comment == name && b.Dominates(at) {
					if v, ok := fr.env[ph]; ok {
						return TV{V: v, T: ph.Type()}, true
					}
				}
			}
		}
		return TV{}, false
	}
	v := e.get(fr, best)
	if bestAddr {
		lt := best.Type().Underlying().(*types.Pointer).Elem()
		lv, _ := e.load(p, v, lt, token.NoPos)
		return TV{V: lv, T: lt}, true
	}
	return TV{V: v, T: best.Type()}, true
}

func isConstLike(v ssa.Value) bool {
	switch v.(type) {
	case *ssa.Const, *ssa.Global, *ssa.Function:
		return true
	}
	return false
}

// ---------------------------------------------------------------------------------------------
// the step function

func (e *Engine) step(p *Path, onExit exitFn) []*Path {
	fr := p.top()
	if fr.mode != 0 {
		return e.stepDefers(p, fr, onExit)
	}
	if fr.block == nil {
		execFail("function %s has no body", fr.fn)
	}
	if fr.pc >= len(fr.block.Instrs) {
		execFail("fell off block end in %s", fr.fn)
	}
	in := fr.block.Instrs[fr.pc]
	fr.pc++
	return e.execInstr(p, fr, in, onExit)
}

func (e *Engine) stepDefers(p *Path, fr *Frame, onExit exitFn) []*Path {
	if n := len(fr.defers); n > 0 {
		d := fr.defers[n-1]
		fr.defers = fr.defers[:n-1]
		return e.doCallValues(p, fr, d.call, d.fnVal, d.args, nil, true, d.instr.Pos())
	}
	switch fr.mode {
	case 1:
		fr.mode = 0
		return nil
	case 2:
		if fr.recov {
			fr.mode = 0
			fr.recov = false
			fr.panicked = false
			if fr.fn.Recover != nil {
				fr.pred = fr.block
				fr.block = fr.fn.Recover
				fr.pc = 0
				return nil
			}
			// no named results: return zero values
			var res []Value
			rs := fr.fn.Signature.Results()
			for i := 0; i < rs.Len(); i++ {
				res = append(res, zeroOf(rs.At(i).Type()))
			}
			return e.leaveFrame(p, fr, true, res, onExit)
		}
		return e.leaveFrame(p, fr, false, nil, onExit)
	}
	return nil
}

// raisePanic puts the top frame into unwinding mode.
func (e *Engine) raisePanic(p *Path) {
	fr := p.top()
	fr.mode = 2
	fr.panicked = true
	fr.recov = false
}

func (e *Engine) leaveFrame(p *Path, fr *Frame, normal bool, res []Value, onExit exitFn) []*Path {
	p.stack = p.stack[:len(p.stack)-1]
	if len(p.stack) == 0 {
		p.done = true
		onExit(p, normal, res)
		return nil
	}
	caller := p.top()
	if !normal {
		// a panic inside a deferred call replaces the current one; either way the caller unwinds
		caller.mode = 2
		caller.panicked = true
		if fr.isDefer {
			caller.recov = false
		}
		return nil
	}
	if fr.retDst != nil {
		switch len(res) {
		case 0:
		case 1:
			caller.env[fr.retDst] = res[0]
		default:
			caller.env[fr.retDst] = &TupleV{E: res}
		}
	}
	return nil
}

func (e *Engine) execInstr(p *Path, fr *Frame, in ssa.Instruction, onExit exitFn) []*Path {
	st := p.st
	switch in := in.(type) {
	case *ssa.DebugRef:
		return nil
	case *ssa.Alloc:
		t := in.Type().Underlying().(*types.Pointer).Elem()
		if isAggregate(t) {
			r := e.newRef(st, in.Comment)
			e.allocSubObjects(st, t, r)
			st.StoreObject(t, r, zeroOf(t))
			fr.env[in] = r
		} else {
			e.nextCell++
			st.Cells[e.nextCell] = zeroOf(t)
			fr.env[in] = &PtrV{Kind: PCell, Cell: e.nextCell}
		}
		return nil
	case *ssa.Phi:
		execFail("phi in the middle of a block")
	case *ssa.BinOp:
		fr.env[in] = e.binop(p, fr, in)
		if (in.Op == token.QUO || in.Op == token.REM) && isInteger(in.X.Type()) {
			d := e.term(fr, in.Y)
			return e.runtimePanic(p, "div-by-zero", in.Pos(), Ne(d, BVU(0, d.Sort.Width)))
		}
		return nil
	case *ssa.UnOp:
		return e.unop(p, fr, in)
	case *ssa.Convert:
		fr.env[in] = e.convertInstr(p, fr, in)
		return nil
	case *ssa.ChangeType:
		fr.env[in] = e.get(fr, in.X)
		return nil
	case *ssa.ChangeInterface:
		fr.env[in] = e.get(fr, in.X)
		return nil
	case *ssa.MakeInterface:
		fr.env[in] = e.makeIface(st, e.get(fr, in.X), in.X.Type())
		return nil
	case *ssa.TypeAssert:
		return e.typeAssert(p, fr, in)
	case *ssa.Extract:
		tv, ok := e.get(fr, in.Tuple).(*TupleV)
		if !ok {
			fr.env[in] = &OpaqueV{Why: "extract from opaque tuple"}
			return nil
		}
		fr.env[in] = tv.E[in.Index]
		return nil
	case *ssa.Field:
		sv, ok := e.get(fr, in.X).(*StructV)
		if !ok {
			fr.env[in] = &OpaqueV{Why: "field of opaque struct"}
			return nil
		}
		fr.env[in] = sv.F[in.Field]
		return nil
	case *ssa.FieldAddr:
		return e.fieldAddr(p, fr, in)
	case *ssa.IndexAddr:
		return e.indexAddr(p, fr, in)
	case *ssa.Index:
		return e.indexInstr(p, fr, in)
	case *ssa.Slice:
		return e.sliceInstr(p, fr, in)
	case *ssa.MakeSlice:
		return e.makeSlice(p, fr, in)
	case *ssa.MakeClosure:
		var bind []Value
		for _, b := range in.Bindings {
			bind = append(bind, e.get(fr, b))
		}
		fr.env[in] = &FuncV{Fn: in.Fn.(*ssa.Function), Bind: bind}
		return nil
	case *ssa.MakeMap:
		r := e.newRef(st, "map")
		mt := in.Type().Underlying().(*types.Map)
		st.setMapState(r, mt, emptyMap(mt))
		fr.env[in] = r
		return nil
	case *ssa.Lookup:
		return e.lookup(p, fr, in)
	case *ssa.MapUpdate:
		return e.mapUpdate(p, fr, in)
	case *ssa.Store:
		v := e.get(fr, in.Val)
		return e.store(p, e.get(fr, in.Addr), v, in.Val.Type(), in.Pos())
	case *ssa.Call:
		return e.doCall(p, fr, in.Common(), in, in.Pos())
	case *ssa.Defer:
		c := in.Common()
		d := deferred{call: c, instr: in}
		if !c.IsInvoke() {
			d.fnVal = e.get(fr, c.Value)
		} else {
			d.fnVal = e.get(fr, c.Value)
		}
		for _, a := range c.Args {
			d.args = append(d.args, e.get(fr, a))
		}
		fr.defers = append(fr.defers, d)
		return nil
	case *ssa.RunDefers:
		fr.mode = 1
		return nil
	case *ssa.Jump:
		e.enterBlock(p, fr, fr.block.Succs[0])
		return nil
	case *ssa.If:
		c := p.st.Simp(e.term(fr, in.Cond)) // prune branches the path condition already decides
		tb, fb := fr.block.Succs[0], fr.block.Succs[1]
		if c == True {
			e.enterBlock(p, fr, tb)
			return nil
		}
		if c == False {
			e.enterBlock(p, fr, fb)
			return nil
		}
		if e.tryMerge(p, fr, c, tb, fb) {
			return nil
		}
		p2 := p.clone()
		p.st.Assume(c)
		e.enterBlock(p, fr, tb)
		p2.st.Assume(Not(c))
		e.enterBlock(p2, p2.top(), fb)
		return []*Path{p2}
	case *ssa.Return:
		var res []Value
		for _, r := range in.Results {
			res = append(res, e.get(fr, r))
		}
		return e.leaveFrame(p, fr, true, res, onExit)
	case *ssa.Panic:
		e.raisePanic(p)
		return nil
	case *ssa.Range:
		return e.rangeInstr(p, fr, in)
	case *ssa.Next:
		return e.nextInstr(p, fr, in)
	case *ssa.SliceToArrayPointer:
		sv := e.get(fr, in.X).(SliceV)
		fr.env[in] = sv.Arr
		e.note("SliceToArrayPointer in %s: offset ignored", fr.fn)
		return nil
	case *ssa.Go, *ssa.Send, *ssa.Select, *ssa.MakeChan:
		execFail("unsupported instruction %T in %s (concurrency is outside the verified subset)", in, fr.fn)
	}
	execFail("unsupported instruction %T in %s", in, fr.fn)
	return nil
}

// ---------------------------------------------------------------------------------------------
// operators

func (e *Engine) binop(p *Path, fr *Frame, in *ssa.BinOp) Value {
	xt := in.X.Type()
	xv, yv := e.get(fr, in.X), e.get(fr, in.Y)
	if _, ok := xv.(*OpaqueV); ok {
		return e.opaqueResult(in.Type(), "binop on opaque")
	}
	if _, ok := yv.(*OpaqueV); ok {
		return e.opaqueResult(in.Type(), "binop on opaque")
	}
	switch in.Op {
	case token.EQL, token.NEQ:
		var r *Term
		if isFloat(xt) {
			r = FPOp("fp.eq", BoolSort, toFP(xv.(*Term)), toFP(yv.(*Term)))
		} else if isString(xt) {
			r = e.stringEq(p.st, xv.(StringV), yv.(StringV))
		} else if xp, ok := xv.(*PtrV); ok {
			yp, ok2 := yv.(*PtrV)
			_ = xp
			_ = yp
			if !ok2 {
				r = False
			} else {
				r = Fresh("ptreq", BoolSort)
			}
		} else if _, ok := yv.(*PtrV); ok {
			r = False
		} else if fx, ok := xv.(*FuncV); ok {
			_ = fx
			r = False // func values only compare with nil
		} else if _, ok := yv.(*FuncV); ok {
			r = False
		} else {
			r = valueEq(xv, yv)
		}
		if in.Op == token.NEQ {
			return Not(r)
		}
		return r
	}
	if isString(xt) && in.Op == token.ADD {
		return e.opaqueString(p.st, "concat")
	}
	x, y := xv.(*Term), yv.(*Term)
	if isFloat(xt) {
		fx, fy := toFP(x), toFP(y)
		w := intWidth(xt)
		switch in.Op {
		case token.LSS:
			return FPOp("fp.lt", BoolSort, fx, fy)
		case token.LEQ:
			return FPOp("fp.leq", BoolSort, fx, fy)
		case token.GTR:
			return FPOp("fp.gt", BoolSort, fx, fy)
		case token.GEQ:
			return FPOp("fp.geq", BoolSort, fx, fy)
		case token.ADD, token.SUB, token.MUL, token.QUO:
			op := map[token.Token]string{token.ADD: "fp.add", token.SUB: "fp.sub", token.MUL: "fp.mul", token.QUO: "fp.div"}[in.Op]
			return fpToBits(FPOp(op, fpSort(w), RNE, fx, fy), w, p.st.Assume)
		}
		execFail("unsupported float operator %s", in.Op)
	}
	if isString(xt) {
		return Fresh("strcmp", BoolSort)
	}
	signed := isSigned(xt)
	switch in.Op {
	case token.SHL, token.SHR:
		cnt := e.int64Of(fr, in.Y)
		if isSigned(in.Y.Type()) {
			// negative shift count panics
			_ = cnt
		}
		if in.Op == token.SHL {
			return shiftTerm("<<", x, signed, cnt)
		}
		return shiftTerm(">>", x, signed, cnt)
	}
	if x.Sort == BoolSort {
		switch in.Op {
		case token.AND, token.LAND:
			return And(x, y)
		case token.OR, token.LOR:
			return Or(x, y)
		}
	}
	if x.Sort != y.Sort {
		execFail("binop %s operand sorts differ: %s vs %s", in.Op, x.Sort, y.Sort)
	}
	cmp := func(u, s string) Value {
		if signed {
			return BVCmp(s, x, y)
		}
		return BVCmp(u, x, y)
	}
	switch in.Op {
	case token.ADD:
		return BVBin("bvadd", x, y)
	case token.SUB:
		return BVBin("bvsub", x, y)
	case token.MUL:
		return BVBin("bvmul", x, y)
	case token.QUO:
		if signed {
			return BVBin("bvsdiv", x, y)
		}
		return BVBin("bvudiv", x, y)
	case token.REM:
		if signed {
			return BVBin("bvsrem", x, y)
		}
		return BVBin("bvurem", x, y)
	case token.AND:
		return BVBin("bvand", x, y)
	case token.OR:
		return BVBin("bvor", x, y)
	case token.XOR:
		return BVBin("bvxor", x, y)
	case token.AND_NOT:
		return BVBin("bvand", x, BVNot(y))
	case token.LSS:
		return cmp("bvult", "bvslt")
	case token.LEQ:
		return cmp("bvule", "bvsle")
	case token.GTR:
		return cmp("bvugt", "bvsgt")
	case token.GEQ:
		return cmp("bvuge", "bvsge")
	}
	execFail("unsupported binary operator %s", in.Op)
	return nil
}

func (e *Engine) stringEq(st *State, a, b StringV) *Term {
	if a.Chars == b.Chars && a.Off == b.Off {
		return Eq(a.Len, b.Len)
	}
	// both constant and short: expand
	if a.Len.IsConst() && b.Len.IsConst() {
		if a.Len.Val.Cmp(b.Len.Val) != 0 {
			return False
		}
	}
	var n int64 = -1
	if a.Len.IsConst() {
		n = a.Len.Val.Int64()
	} else if b.Len.IsConst() {
		n = b.Len.Val.Int64()
	}
	if n >= 0 && n <= 32 {
		cs := []*Term{Eq(a.Len, b.Len)}
		for i := int64(0); i < n; i++ {
			k := BVU(uint64(i), 64)
			cs = append(cs, Eq(Select(a.Chars, BVBin("bvadd", a.Off, k)), Select(b.Chars, BVBin("bvadd", b.Off, k))))
		}
		return And(cs...)
	}
	e.Abstract["string equality (uninterpreted)"] = true
	return App("streq", BoolSort, a.Chars, a.Off, a.Len, b.Chars, b.Off, b.Len)
}

func (e *Engine) opaqueString(st *State, why string) StringV {
	s := freshOf("str:"+why, types.Typ[types.String], nil, false).(StringV)
	st.assumeWF(s, types.Typ[types.String])
	return s
}

func (e *Engine) opaqueResult(t types.Type, why string) Value {
	if tt, ok := t.(*types.Tuple); ok && tt.Len() == 0 {
		return nil
	}
	v := freshOf("opq", t, nil, false)
	return v
}

func (e *Engine) unop(p *Path, fr *Frame, in *ssa.UnOp) []*Path {
	switch in.Op {
	case token.MUL:
		v, forks := e.load(p, e.get(fr, in.X), in.Type(), in.Pos())
		fr.env[in] = v
		return forks
	case token.NOT:
		fr.env[in] = Not(e.term(fr, in.X))
	case token.SUB:
		x := e.term(fr, in.X)
		if isFloat(in.Type()) {
			w := x.Sort.Width
			fr.env[in] = BVBin("bvxor", x, BVConst(bigPow2(w-1), w))
		} else {
			fr.env[in] = BVNeg(x)
		}
	case token.XOR:
		fr.env[in] = BVNot(e.term(fr, in.X))
	default:
		execFail("unsupported unary operator %s", in.Op)
	}
	return nil
}

func (e *Engine) convertInstr(p *Path, fr *Frame, in *ssa.Convert) Value {
	from, to := in.X.Type(), in.Type()
	xv := e.get(fr, in.X)
	if _, ok := xv.(*OpaqueV); ok {
		return e.opaqueResult(to, "convert opaque")
	}
	st := p.st
	fu, tu := from.Underlying(), to.Underlying()
	if fb, ok := fu.(*types.Basic); ok {
		if tb, ok := tu.(*types.Basic); ok {
			switch {
			case (fb.Info()&types.IsNumeric != 0) && (tb.Info()&types.IsNumeric != 0):
				return convertNum(xv.(*Term), from, to, st.Assume)
			case fb.Info()&types.IsString != 0 && tb.Info()&types.IsString != 0:
				return xv
			case fb.Info()&types.IsInteger != 0 && tb.Info()&types.IsString != 0:
				e.Abstract["string(rune) conversion (uninterpreted)"] = true
				return e.opaqueString(st, "rune")
			case fb.Kind() == types.UnsafePointer || tb.Kind() == types.UnsafePointer:
				if e.inInit {
					return xv
				}
				execFail("unsafe.Pointer conversion in %s (outside the verified subset)", fr.fn)
			}
		}
		if ts, ok := tu.(*types.Slice); ok && fb.Info()&types.IsString != 0 {
			// []byte(string)
			if b, ok := ts.Elem().Underlying().(*types.Basic); ok && b.Kind() == types.Uint8 {
				s := xv.(StringV)
				r := e.newRef(st, "bytes")
				m := st.Mem(types.Typ[types.Uint8]).(*Term)
				st.Mems[typeKey(types.Typ[types.Uint8])] = Store(m, r, s.Chars)
				return SliceV{r, s.Off, s.Len, s.Len}
			}
			e.Abstract["[]rune(string) conversion (uninterpreted)"] = true
			return e.opaqueResult(to, "[]rune(string)")
		}
		if _, ok := tu.(*types.Pointer); ok && fb.Kind() == types.UnsafePointer {
			if e.inInit {
				// package initialisers only: the pointer is carried through; a later slice of the
				// reinterpreted cell yields its little-endian bytes (A-ARCH, A-UNSAFE)
				return xv
			}
			execFail("unsafe.Pointer conversion in %s (outside the verified subset)", fr.fn)
		}
	}
	if fs, ok := fu.(*types.Slice); ok {
		if tb, ok := tu.(*types.Basic); ok && tb.Info()&types.IsString != 0 {
			if b, ok := fs.Elem().Underlying().(*types.Basic); ok && b.Kind() == types.Uint8 {
				s := xv.(SliceV)
				m := st.Mem(types.Typ[types.Uint8]).(*Term)
				return StringV{Select(m, s.Arr), s.Off, s.Len}
			}
			e.Abstract["string([]rune) conversion (uninterpreted)"] = true
			return e.opaqueString(st, "runes")
		}
	}
	if _, ok := fu.(*types.Pointer); ok {
		if tb, ok := tu.(*types.Basic); ok && tb.Kind() == types.UnsafePointer {
			if e.inInit {
				return xv
			}
			execFail("unsafe.Pointer conversion in %s (outside the verified subset)", fr.fn)
		}
	}
	execFail("unsupported conversion %s -> %s in %s", from, to, fr.fn)
	return nil
}

func (e *Engine) typeAssert(p *Path, fr *Frame, in *ssa.TypeAssert) []*Path {
	xv := e.get(fr, in.X)
	x, ok := xv.(*Term)
	if !ok {
		fr.env[in] = e.opaqueResult(in.Type(), "type assert on opaque")
		return nil
	}
	var okT *Term
	var val Value
	if _, isIface := in.AssertedType.Underlying().(*types.Interface); isIface {
		// interface-to-interface: same dynamic value; success unknown except that nil fails
		it := in.AssertedType.Underlying().(*types.Interface)
		if it.NumMethods() == 0 {
			okT = Ne(x, NilIface)
		} else {
			okT = And(Ne(x, NilIface), App("implements:"+typeKey(in.AssertedType), BoolSort, ifaceTag(x)))
		}
		val = x
	} else {
		okT = Eq(ifaceTag(x), e.typeTag(in.AssertedType))
		val = e.ifacePayload(x, in.AssertedType)
		p.st.assumeWF(val, in.AssertedType)
	}
	if in.CommaOk {
		// on failure the value is the zero value
		fr.env[in] = &TupleV{E: []Value{valueIteSafe(okT, val, zeroOf(in.AssertedType)), okT}}
		return nil
	}
	forks := e.runtimePanic(p, "type-assert", in.Pos(), okT)
	fr.env[in] = val
	return forks
}

func valueIteSafe(c *Term, a, b Value) Value {
	if _, ok := a.(*OpaqueV); ok {
		return a
	}
	if _, ok := b.(*OpaqueV); ok {
		return a
	}
	return valueIte(c, a, b)
}

func (e *Engine) fieldAddr(p *Path, fr *Frame, in *ssa.FieldAddr) []*Path {
	base := e.get(fr, in.X)
	owner := in.X.Type().Underlying().(*types.Pointer).Elem()
	key, f := fieldKey(owner, in.Field)
	if gp, ok := base.(*PtrV); ok && gp.Kind == PGlobal && isAggregate(globalElemType(gp.Glob)) {
		// a package-level struct: its fields live in the field heaps at the global's fixed address
		e.importConstGlobal(p.st, gp.Glob)
		base = globalRef(gp.Glob)
	}
	switch b := base.(type) {
	case *Term:
		forks := e.runtimePanic(p, "nil-deref", in.Pos(), Ne(b, BVU(0, 64)))
		if isAggregate(f.Type()) {
			s := subRef(key, b)
			p.st.Assume(Ne(s, BVU(0, 64)))
			fr.env[in] = s
		} else {
			fr.env[in] = &PtrV{Kind: PField, Ref: b, Key: key, FT: f.Type()}
		}
		return forks
	case *PtrV:
		if b.Kind == PElem {
			np := *b
			np.Path = append(append([]int(nil), b.Path...), in.Field)
			fr.env[in] = &np
			return nil
		}
	case *OpaqueV:
		fr.env[in] = b
		return nil
	}
	execFail("FieldAddr on unsupported base %s in %s", describeValue(base), fr.fn)
	return nil
}

func (e *Engine) indexAddr(p *Path, fr *Frame, in *ssa.IndexAddr) []*Path {
	base := e.get(fr, in.X)
	idx := e.int64Of(fr, in.Index)
	switch b := base.(type) {
	case SliceV:
		et := in.X.Type().Underlying().(*types.Slice).Elem()
		forks := e.runtimePanic(p, "index", in.Pos(), BVCmp("bvult", idx, b.Len))
		fr.env[in] = &PtrV{Kind: PElem, Arr: b.Arr, Idx: BVBin("bvadd", b.Off, idx), FT: et}
		return forks
	case *Term:
		at := in.X.Type().Underlying().(*types.Pointer).Elem().Underlying().(*types.Array)
		forks := e.runtimePanic(p, "index", in.Pos(), BVCmp("bvult", idx, BVU(uint64(at.Len()), 64)))
		fr.env[in] = &PtrV{Kind: PElem, Arr: b, Idx: idx, FT: at.Elem()}
		return forks
	case *PtrV:
		if b.Kind == PGlobal {
			at := globalElemType(b.Glob).Underlying().(*types.Array)
			e.importConstGlobal(p.st, b.Glob)
			forks := e.runtimePanic(p, "index", in.Pos(), BVCmp("bvult", idx, BVU(uint64(at.Len()), 64)))
			fr.env[in] = &PtrV{Kind: PElem, Arr: globalRef(b.Glob), Idx: idx, FT: at.Elem()}
			return forks
		}
	case *OpaqueV:
		fr.env[in] = b
		return nil
	}
	execFail("IndexAddr on unsupported base %s in %s", describeValue(base), fr.fn)
	return nil
}

func (e *Engine) indexInstr(p *Path, fr *Frame, in *ssa.Index) []*Path {
	base := e.get(fr, in.X)
	idx := e.int64Of(fr, in.Index)
	switch b := base.(type) {
	case StringV:
		forks := e.runtimePanic(p, "index", in.Pos(), BVCmp("bvult", idx, b.Len))
		fr.env[in] = Select(b.Chars, BVBin("bvadd", b.Off, idx))
		return forks
	case *ArrayV:
		at := in.X.Type().Underlying().(*types.Array)
		forks := e.runtimePanic(p, "index", in.Pos(), BVCmp("bvult", idx, BVU(uint64(at.Len()), 64)))
		fr.env[in] = mapLeaves(b.M, func(t *Term) *Term { return Select(t, idx) })
		return forks
	}
	execFail("Index on unsupported base %s", describeValue(base))
	return nil
}

func (e *Engine) sliceInstr(p *Path, fr *Frame, in *ssa.Slice) []*Path {
	base := e.get(fr, in.X)
	var lo, hi, mx *Term
	if in.Low != nil {
		lo = e.int64Of(fr, in.Low)
	} else {
		lo = BVU(0, 64)
	}
	if in.High != nil {
		hi = e.int64Of(fr, in.High)
	}
	if in.Max != nil {
		mx = e.int64Of(fr, in.Max)
	}
	switch b := base.(type) {
	case SliceV:
		if hi == nil {
			hi = b.Len
		}
		capv := b.Cap
		if mx != nil {
			capv = mx
		}
		ok := And(BVCmp("bvule", lo, hi), BVCmp("bvule", hi, capv), BVCmp("bvule", capv, b.Cap))
		forks := e.runtimePanic(p, "slice-bounds", in.Pos(), ok)
		fr.env[in] = SliceV{b.Arr, BVBin("bvadd", b.Off, lo), BVBin("bvsub", hi, lo), BVBin("bvsub", capv, lo)}
		return forks
	case StringV:
		if hi == nil {
			hi = b.Len
		}
		ok := And(BVCmp("bvule", lo, hi), BVCmp("bvule", hi, b.Len))
		forks := e.runtimePanic(p, "slice-bounds", in.Pos(), ok)
		fr.env[in] = StringV{b.Chars, BVBin("bvadd", b.Off, lo), BVBin("bvsub", hi, lo)}
		return forks
	case *Term:
		at := in.X.Type().Underlying().(*types.Pointer).Elem().Underlying().(*types.Array)
		n := BVU(uint64(at.Len()), 64)
		if hi == nil {
			hi = n
		}
		capv := n
		if mx != nil {
			capv = mx
		}
		ok := And(BVCmp("bvule", lo, hi), BVCmp("bvule", hi, capv), BVCmp("bvule", capv, n))
		forks := e.runtimePanic(p, "slice-bounds", in.Pos(), ok)
		forks = append(forks, e.runtimePanic(p, "nil-deref", in.Pos(), Ne(b, BVU(0, 64)))...)
		fr.env[in] = SliceV{b, lo, BVBin("bvsub", hi, lo), BVBin("bvsub", capv, lo)}
		return forks
	case *PtrV:
		if b.Kind == PCell && e.inInit {
			// (*[N]byte)(unsafe.Pointer(&v))[:k] in a package initialiser: the little-endian bytes of v
			if cv, ok := p.st.Cells[b.Cell].(*Term); ok && cv.Sort.Kind == SBV && cv.Sort.Width%8 == 0 {
				r := e.newRef(p.st, "reinterpret")
				nb := cv.Sort.Width / 8
				for i := 0; i < nb; i++ {
					p.st.StoreElem(types.Typ[types.Uint8], r, BVU(uint64(i), 64), Extract(8*i+7, 8*i, cv))
				}
				if hi == nil {
					hi = BVU(uint64(nb), 64)
				}
				e.note("package initialiser of %s reinterprets a %d-bit value as bytes through unsafe.Pointer: read little-endian (A-ARCH, A-UNSAFE)", fr.fn.Pkg.Pkg.Path(), cv.Sort.Width)
				fr.env[in] = SliceV{r, lo, BVBin("bvsub", hi, lo), BVBin("bvsub", BVU(uint64(nb), 64), lo)}
				return nil
			}
		}
		if b.Kind == PGlobal {
			at := globalElemType(b.Glob).Underlying().(*types.Array)
			n := BVU(uint64(at.Len()), 64)
			if hi == nil {
				hi = n
			}
			ok := And(BVCmp("bvule", lo, hi), BVCmp("bvule", hi, n))
			forks := e.runtimePanic(p, "slice-bounds", in.Pos(), ok)
			fr.env[in] = SliceV{globalRef(b.Glob), lo, BVBin("bvsub", hi, lo), BVBin("bvsub", n, lo)}
			return forks
		}
	case *OpaqueV:
		fr.env[in] = e.opaqueResult(in.Type(), "slice of opaque")
		return nil
	}
	execFail("Slice on unsupported base %s in %s", describeValue(base), fr.fn)
	return nil
}

func (e *Engine) makeSlice(p *Path, fr *Frame, in *ssa.MakeSlice) []*Path {
	n := e.int64Of(fr, in.Len)
	c := e.int64Of(fr, in.Cap)
	st := p.st
	okc := And(BVCmp("bvsle", BVU(0, 64), n), BVCmp("bvsle", n, c), BVCmp("bvule", c, maxLen))
	forks := e.runtimePanic(p, "makeslice-len", in.Pos(), okc)
	r := e.newRef(st, "make")
	et := in.Type().Underlying().(*types.Slice).Elem()
	// zeroed contents
	key := typeKey(et)
	m := st.Mem(et)
	z := buildShape(et, func(_ string, s *Sort) *Term { return ConstArray(ArraySort(BV64, s), zeroTerm(s)) }, "")
	st.Mems[key] = zipLeaves(m, z, func(a, x *Term) *Term { return Store(a, r, x) })
	fr.env[in] = SliceV{r, BVU(0, 64), n, c}
	// ghost allocation counter
	if g, ok := e.cs.Ghosts["allocBytes"]; ok && !g.IsFunc {
		cur := st.ghostVal("allocBytes", types.Typ[types.Uint64]).(*Term)
		st.Assume(BVCmp("bvult", cur, BVU(1<<62, 64))) // A-ALLOC: the counter does not wrap
		sz := e.elemSize(et)
		st.Ghost["allocBytes"] = BVBin("bvadd", cur, BVBin("bvmul", c, BVU(uint64(sz), 64)))
	}
	return forks
}

func (e *Engine) elemSize(t types.Type) int64 {
	sz := types.SizesFor("gc", "amd64").Sizeof(t)
	if sz <= 0 {
		return 1
	}
	return sz
}

// ---------------------------------------------------------------------------------------------
// maps

func keySort(k types.Type) *Sort {
	if s := scalarSort(k); s != nil {
		return s
	}
	if isString(k) {
		return UnintSort("StrKey")
	}
	return nil
}

func (e *Engine) keyTerm(v Value, k types.Type) *Term {
	if t, ok := v.(*Term); ok {
		return t
	}
	if s, ok := v.(StringV); ok {
		e.Abstract["string map keys (uninterpreted, congruence only)"] = true
		return App("strkey", UnintSort("StrKey"), s.Chars, s.Off, s.Len)
	}
	execFail("unsupported map key %s", describeValue(v))
	return nil
}

func emptyMap(mt *types.Map) *MapState {
	ks := keySort(mt.Key())
	if ks == nil {
		execFail("unsupported map key type %s", mt.Key())
	}
	val := buildShape(mt.Elem(), func(_ string, s *Sort) *Term { return ConstArray(ArraySort(ks, s), zeroTerm(s)) }, "")
	return &MapState{Dom: ConstArray(ArraySort(ks, BoolSort), False), Val: val, Card: BVU(0, 64)}
}

func (s *State) mapState(ref *Term, mt *types.Map) *MapState {
	ks := keySort(mt.Key())
	if ks == nil {
		execFail("unsupported map key type %s", mt.Key())
	}
	key := "map:" + typeKey(mt)
	dom := s.heapRaw(key+".dom", ArraySort(RefSort, ArraySort(ks, BoolSort)))
	card := s.heapRaw(key+".card", ArraySort(RefSort, BV64))
	var val Value
	if v, ok := s.Heaps[key+".val"]; ok {
		val = v
	} else {
		val = buildShape(mt.Elem(), func(sfx string, so *Sort) *Term {
			return Var("H:"+key+".val"+s.mapEpoch()+sfx, ArraySort(RefSort, ArraySort(ks, so)))
		}, "")
		s.Heaps[key+".val"] = val
	}
	return &MapState{Dom: Select(dom, ref), Val: mapLeaves(val, func(t *Term) *Term { return Select(t, ref) }), Card: Select(card, ref)}
}

func (s *State) heapRaw(key string, so *Sort) *Term {
	if v, ok := s.Heaps[key]; ok {
		return v.(*Term)
	}
	v := Var("H:"+key+s.mapEpoch(), so)
	s.Heaps[key] = v
	return v
}

func (s *State) mapEpoch() string {
	if s.EpochMaps != "" {
		return s.EpochMaps
	}
	return s.Epoch
}

func (s *State) setMapState(ref *Term, mt *types.Map, ms *MapState) {
	ks := keySort(mt.Key())
	key := "map:" + typeKey(mt)
	dom := s.heapRaw(key+".dom", ArraySort(RefSort, ArraySort(ks, BoolSort)))
	card := s.heapRaw(key+".card", ArraySort(RefSort, BV64))
	s.mapState(ref, mt) // ensure val heap exists
	s.Heaps[key+".dom"] = Store(dom, ref, ms.Dom)
	s.Heaps[key+".card"] = Store(card, ref, ms.Card)
	s.Heaps[key+".val"] = zipLeaves(s.Heaps[key+".val"], ms.Val, func(h, v *Term) *Term { return Store(h, ref, v) })
}

func (e *Engine) lookup(p *Path, fr *Frame, in *ssa.Lookup) []*Path {
	xv := e.get(fr, in.X)
	if s, ok := xv.(StringV); ok {
		idx := e.int64Of(fr, in.Index)
		forks := e.runtimePanic(p, "index", in.Pos(), BVCmp("bvult", idx, s.Len))
		fr.env[in] = Select(s.Chars, BVBin("bvadd", s.Off, idx))
		return forks
	}
	ref, ok := xv.(*Term)
	if !ok {
		fr.env[in] = e.opaqueResult(in.Type(), "lookup in opaque map")
		return nil
	}
	mt := in.X.Type().Underlying().(*types.Map)
	ms := p.st.mapState(ref, mt)
	k := e.keyTerm(e.get(fr, in.Index), mt.Key())
	present := And(Ne(ref, BVU(0, 64)), Select(ms.Dom, k))
	val := mapLeaves(ms.Val, func(t *Term) *Term { return Select(t, k) })
	val = valueIteSafe(present, val, zeroOf(mt.Elem()))
	p.st.assumeWF(val, mt.Elem())
	if in.CommaOk {
		fr.env[in] = &TupleV{E: []Value{val, present}}
	} else {
		fr.env[in] = val
	}
	return nil
}

func (e *Engine) mapUpdate(p *Path, fr *Frame, in *ssa.MapUpdate) []*Path {
	ref, ok := e.get(fr, in.Map).(*Term)
	if !ok {
		return nil
	}
	mt := in.Map.Type().Underlying().(*types.Map)
	forks := e.runtimePanic(p, "nil-map-write", in.Pos(), Ne(ref, BVU(0, 64)))
	ms := p.st.mapState(ref, mt)
	k := e.keyTerm(e.get(fr, in.Key), mt.Key())
	v := e.get(fr, in.Value)
	was := Select(ms.Dom, k)
	ns := &MapState{Dom: Store(ms.Dom, k, True), Card: Ite(was, ms.Card, BVBin("bvadd", ms.Card, BVU(1, 64)))}
	if _, opq := v.(*OpaqueV); opq {
		v = freshOf("opq", mt.Elem(), nil, false)
	}
	ns.Val = zipLeaves(ms.Val, v, func(a, x *Term) *Term { return Store(a, k, x) })
	p.st.setMapState(ref, mt, ns)
	return forks
}

// ---------------------------------------------------------------------------------------------
// range (slices are lowered to index loops by go/ssa; Range/Next occur for strings and maps)

func (e *Engine) rangeInstr(p *Path, fr *Frame, in *ssa.Range) []*Path {
	execFail("range over %s in %s is outside the verified subset", in.X.Type(), fr.fn)
	return nil
}

func (e *Engine) nextInstr(p *Path, fr *Frame, in *ssa.Next) []*Path {
	execFail("range iteration in %s is outside the verified subset", fr.fn)
	return nil
}
