package vc

// constprop.go: propagation of constants through a quantifier-free query before it is sent to a
// solver. Facts of the form t = c (c a literal) and the truth values of asserted atoms are
// substituted everywhere; the simplifying term constructors then fold what becomes constant.
// The defining facts themselves are kept, so the rewritten query is equivalent to the original.
// This matters for dispatch code: once the path condition fixes a type byte, the dozens of
// guarded clauses of a decoding relation that talk about other type bytes disappear before the
// solver sees (and bit-blasts) them.

import "math/big"

func ConstProp(asserts []*Term) []*Term {
	cur := asserts
	for round := 0; round < 6; round++ {
		sub := map[*Term]*Term{}
		var defs []*Term
		var addEq func(x, c *Term) bool
		addEq = func(x, c *Term) bool {
			if x.IsConst() || x == True || x == False {
				return false
			}
			if old, ok := sub[x]; ok {
				return old == c
			}
			sub[x] = c
			if x.Op == "zero_extend" && c.Op == "const" {
				in := x.Args[0]
				w := in.Sort.Width
				if new(big.Int).Rsh(c.Val, uint(w)).Sign() == 0 {
					addEq(in, BVConst(c.Val, w))
				}
			}
			return true
		}
		var collect func(a *Term)
		collect = func(a *Term) {
			switch a.Op {
			case "and":
				for _, x := range a.Args {
					collect(x)
				}
			case "=":
				x, y := a.Args[0], a.Args[1]
				switch {
				case (y.IsConst() || y == True || y == False) && addEq(x, y):
					defs = append(defs, a)
				case (x.IsConst() || x == True || x == False) && addEq(y, x):
					defs = append(defs, a)
				default:
					if addEq(a, True) {
						defs = append(defs, a)
					}
				}
			case "not":
				b := a.Args[0]
				if b.Op != "forall" && b.Op != "exists" && b != True && b != False {
					if addEq(b, False) {
						defs = append(defs, a)
					}
				}
			case "forall", "exists", "or", "=>", "ite":
			default:
				if a.Sort == BoolSort && a != True && a != False {
					if addEq(a, True) {
						defs = append(defs, a)
					}
				}
			}
		}
		for _, a := range cur {
			collect(a)
		}
		if len(sub) == 0 {
			return cur
		}
		memo := map[*Term]*Term{}
		var rw func(t *Term) *Term
		rw = func(t *Term) *Term {
			if r, ok := memo[t]; ok {
				return r
			}
			var r *Term
			if c, ok := sub[t]; ok {
				r = c
			} else if len(t.Args) == 0 || t.Op == "forall" || t.Op == "exists" {
				r = t
			} else {
				args := make([]*Term, len(t.Args))
				ch := false
				for i, a := range t.Args {
					args[i] = rw(a)
					if args[i] != a {
						ch = true
					}
				}
				if ch {
					r = rebuild(t, args)
					if c, ok := sub[r]; ok {
						r = c
					}
				} else {
					r = t
				}
			}
			memo[t] = r
			return r
		}
		seen := map[*Term]bool{}
		var out []*Term
		add := func(t *Term) {
			if t == True || seen[t] {
				return
			}
			seen[t] = true
			out = append(out, t)
		}
		for _, d := range defs {
			add(d)
		}
		changed := false
		for _, a := range cur {
			r := rw(a)
			if r != a {
				changed = true
			}
			if r == False {
				return []*Term{False}
			}
			for _, c := range conjuncts(r) {
				add(c)
			}
		}
		cur = out
		if !changed {
			break
		}
	}
	return cur
}
