package vc

// rename.go: contracts name parameters and loop variables. A maintainer who renames one of them does
// not change behaviour, so a name of the contract that no longer exists is bound by elimination:
//
//   - in loop clauses, to the one source-level variable of the loop header that the contract of the
//     function does not mention. Invariants and variants are proof obligations (established on entry,
//     preserved by every iteration), so whatever variable the name is bound to, what gets proved is
//     true of the code: a wrong binding can only make an obligation fail, never pass wrongly;
//   - in the contract of a function, to the one parameter that the contract does not mention, on the
//     callee's side and at every call site alike (the contract is read as being about that parameter;
//     with exactly one unmentioned parameter and one unknown name there is no other reading).
//
// Every such binding is reported in the evidence (notes).

import (
	"fmt"
	"go/types"
	"sort"
	"strings"

	"golang.org/x/tools/go/ssa"
)

func exprIdents(e Expr, out map[string]bool) {
	switch x := e.(type) {
	case nil:
	case *Ident:
		out[x.Name] = true
	case *Unary:
		exprIdents(x.X, out)
	case *Binary:
		exprIdents(x.X, out)
		exprIdents(x.Y, out)
	case *CallE:
		exprIdents(x.Fun, out)
		for _, a := range x.Args {
			exprIdents(a, out)
		}
	case *IndexE:
		exprIdents(x.X, out)
		exprIdents(x.I, out)
	case *SliceE:
		exprIdents(x.X, out)
		if x.Lo != nil {
			exprIdents(x.Lo, out)
		}
		if x.Hi != nil {
			exprIdents(x.Hi, out)
		}
	case *Selector:
		exprIdents(x.X, out)
	case *Quant:
		exprIdents(x.Body, out)
	}
}

var contractIdentCache = map[*Contract]map[string]bool{}

// contractIdents: every identifier that occurs anywhere in the contract.
func contractIdents(ct *Contract) map[string]bool {
	if m, ok := contractIdentCache[ct]; ok {
		return m
	}
	m := map[string]bool{}
	add := func(cs []*Clause) {
		for _, c := range cs {
			if c == nil {
				continue
			}
			exprIdents(c.E, m)
			exprIdents(c.Index, m)
			for _, x := range c.Es {
				exprIdents(x, m)
			}
		}
	}
	add(ct.Requires)
	add(ct.Ensures)
	add(ct.XEnsures)
	add(ct.Panics)
	add(ct.Cases)
	add(ct.Modifies)
	add(ct.Lets)
	add(ct.GhostSets)
	for _, f := range ct.Forwards {
		if f.Cond != nil {
			exprIdents(f.Cond.E, m)
		}
		for _, a := range f.Args {
			exprIdents(a, m)
		}
	}
	for _, ls := range ct.Loops {
		add(ls.Invariants)
		add(ls.Modifies)
		add(ls.Steps)
		add(ls.XSteps)
		if ls.Decreases != nil {
			exprIdents(ls.Decreases.E, m)
		}
	}
	contractIdentCache[ct] = m
	return m
}

// renamedParam: the parameter an unknown name of the contract stands for: a parameter the contract
// does not mention. If several parameters are unmentioned, the one (and only one) for which every
// clause of the contract still type-checks is taken (a byte predicate applied to a configuration
// pointer does not), otherwise the name stays unknown.
func (e *Engine) renamedParam(ct *Contract, names []string, tys []types.Type, sig *types.Signature, pkg *types.Package, unknown string) (int, bool) {
	if ct == nil {
		return 0, false
	}
	ids := contractIdents(ct)
	if !ids[unknown] {
		return 0, false
	}
	var free []int
	for i, n := range names {
		if n == "" || n == "_" || ids[n] {
			continue
		}
		free = append(free, i)
	}
	if ct.Renamed == nil {
		ct.Renamed = map[string]string{}
	}
	if prev, ok := ct.Renamed[unknown]; ok {
		for i, n := range names {
			if n == prev {
				return i, true
			}
		}
		return 0, false
	}
	taken := map[string]bool{}
	for k, v := range ct.Renamed {
		if !strings.HasPrefix(k, "loop") {
			taken[v] = true
		}
	}
	var viable []int
	for _, i := range free {
		if taken[names[i]] {
			continue
		}
		if len(free) == 1 || e.contractTypeChecks(ct, names, tys, sig, pkg, unknown, i) {
			viable = append(viable, i)
		}
	}
	if len(viable) != 1 {
		return 0, false
	}
	ct.Renamed[unknown] = names[viable[0]]
	e.note("contract of %s: the name %q is not a parameter any more; read as the parameter %q, which the contract does not mention (renamed?)", ct.Target, unknown, names[viable[0]])
	return viable[0], true
}

// contractTypeChecks: do the pre- and postconditions of ct evaluate without a type error when the
// unknown name stands for parameter cand? (A dry run on fresh symbolic values in a scratch state.)
func (e *Engine) contractTypeChecks(ct *Contract, names []string, tys []types.Type, sig *types.Signature, pkg *types.Package, unknown string, cand int) (ok bool) {
	defer func() {
		if r := recover(); r != nil {
			ok = false
		}
	}()
	if ct.Pkg != "" {
		if tp := e.typesPkg(ct.Pkg); tp != nil {
			pkg = tp
		}
	}
	st := NewState()
	env := map[string]TV{}
	for i, n := range names {
		if i < len(tys) {
			env[n] = TV{V: freshOf("dry:"+n, tys[i], nil, true), T: tys[i]}
		}
	}
	if cand >= len(tys) {
		return false
	}
	env[unknown] = env[names[cand]]
	if sig != nil {
		var res []Value
		for i := 0; i < sig.Results().Len(); i++ {
			res = append(res, freshOf(fmt.Sprintf("dry:res%d", i), sig.Results().At(i).Type(), nil, true))
		}
		bindResults(env, sig, res)
	}
	ctx := &EvalCtx{eng: e, pkg: pkg, cur: st, old: st, env: env}
	for _, l := range ct.Lets {
		tv, err := ctx.Eval(l.E)
		if err != nil {
			return false
		}
		ctx.env[l.Text] = tv
	}
	for _, group := range [][]*Clause{ct.Requires, ct.Ensures, ct.XEnsures, ct.Panics} {
		for _, c := range group {
			if _, err := ctx.EvalBool(c.E); err != nil {
				return false
			}
		}
	}
	return true
}

// renamedLoopVar: the variable an unknown name in the clauses of loop li stands for: the one
// source-level variable visible at the loop header (a variable of the loop, or a local defined before
// it) that the contract does not mention. Returns the variable's current name.
func (e *Engine) renamedLoopVar(ct *Contract, fr *Frame, li *loopInfo, unknown string) (string, bool) {
	if ct == nil {
		return "", false
	}
	ids := contractIdents(ct)
	params := map[string]bool{}
	for _, p := range fr.fn.Params {
		params[p.Name()] = true
	}
	seen := map[string]bool{}
	var cands []string
	consider := func(n string) {
		if n == "" || n == "_" || n == "rangeindex" || ids[n] || params[n] || seen[n] {
			return
		}
		seen[n] = true
		cands = append(cands, n)
	}
	for _, b := range fr.fn.Blocks {
		if !(b == li.header || b.Dominates(li.header)) {
			continue
		}
		for _, in := range b.Instrs {
			switch x := in.(type) {
			case *ssa.Phi:
				if _, defined := fr.env[x]; defined {
					consider(x.Comment)
				}
			case *ssa.DebugRef:
				if b == li.header {
					continue
				}
				if v, ok := x.Object().(*types.Var); ok && !v.IsField() {
					if _, defined := fr.env[x.X]; defined || isConstLike(x.X) {
						consider(v.Name())
					}
				}
			}
		}
	}
	if len(cands) != 1 {
		return "", false
	}
	key := fmt.Sprintf("loop%d:%s", li.ordinal, unknown)
	if ct.Renamed == nil {
		ct.Renamed = map[string]string{}
	}
	if prev, ok := ct.Renamed[key]; ok && prev != cands[0] {
		return "", false
	}
	var taken []string
	for k, v := range ct.Renamed {
		if v == cands[0] && k != key && strings.HasPrefix(k, fmt.Sprintf("loop%d:", li.ordinal)) {
			taken = append(taken, k)
		}
	}
	sort.Strings(taken)
	if len(taken) > 0 {
		return "", false
	}
	if _, ok := ct.Renamed[key]; !ok {
		ct.Renamed[key] = cands[0]
		e.note("contract of %s, loop %d: the name %q is not a variable there any more; read as the one visible variable the contract does not mention, %q (renamed?)", ct.Target, li.ordinal, unknown, cands[0])
	}
	return cands[0], true
}
