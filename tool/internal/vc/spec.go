package vc

// spec.go: lexer and Pratt parser of the contract expression language.
//
// Go expression syntax plus: a ==> b, a <==> b, forall x T, y U :: P, exists x T :: P,
// old(e), ite(c,a,b), result / result0.. for return values.

import (
	"fmt"
	"math/big"
	"strings"
	"unicode"
)

type Expr interface{ exprNode() }

type (
	Ident    struct{ Name string }
	IntLit   struct{ Val *big.Int }
	BoolLit  struct{ Val bool }
	StrLit   struct{ Val string }
	Unary    struct{ Op string; X Expr }
	Binary   struct{ Op string; X, Y Expr }
	CallE    struct{ Fun Expr; Args []Expr }
	IndexE   struct{ X, I Expr }
	SliceE   struct{ X, Lo, Hi Expr }
	Selector struct{ X Expr; Sel string }
	QVar     struct{ Name, Type string }
	Quant    struct {
		Forall bool
		Vars   []QVar
		Body   Expr
	}
)

func (*Ident) exprNode()    {}
func (*IntLit) exprNode()   {}
func (*BoolLit) exprNode()  {}
func (*StrLit) exprNode()   {}
func (*Unary) exprNode()    {}
func (*Binary) exprNode()   {}
func (*CallE) exprNode()    {}
func (*IndexE) exprNode()   {}
func (*SliceE) exprNode()   {}
func (*Selector) exprNode() {}
func (*Quant) exprNode()    {}

type stok struct {
	kind string // id, int, str, op, eof
	text string
	pos  int
}

func lexSpec(src string) ([]stok, error) {
	var toks []stok
	i := 0
	ops := []string{"<==>", "==>", "&&", "||", "==", "!=", "<=", ">=", "<<", ">>", "&^", "::",
		"+", "-", "*", "/", "%", "&", "|", "^", "<", ">", "!", "(", ")", "[", "]", ".", ",", ":", "{", "}"}
	for i < len(src) {
		c := rune(src[i])
		switch {
		case unicode.IsSpace(c):
			i++
		case unicode.IsLetter(c) || c == '_':
			j := i
			for j < len(src) && (unicode.IsLetter(rune(src[j])) || unicode.IsDigit(rune(src[j])) || src[j] == '_') {
				j++
			}
			toks = append(toks, stok{"id", src[i:j], i})
			i = j
		case unicode.IsDigit(c):
			j := i
			for j < len(src) && (unicode.IsLetter(rune(src[j])) || unicode.IsDigit(rune(src[j])) || src[j] == '_') {
				j++
			}
			toks = append(toks, stok{"int", src[i:j], i})
			i = j
		case c == '"':
			j := i + 1
			for j < len(src) && src[j] != '"' {
				if src[j] == '\\' {
					j++
				}
				j++
			}
			if j >= len(src) {
				return nil, fmt.Errorf("unterminated string at %d", i)
			}
			toks = append(toks, stok{"str", src[i+1 : j], i})
			i = j + 1
		case c == '\'':
			// rune literal
			j := i + 1
			for j < len(src) && src[j] != '\'' {
				if src[j] == '\\' {
					j++
				}
				j++
			}
			lit := src[i+1 : j]
			var v int64
			if strings.HasPrefix(lit, "\\") {
				switch lit {
				case "\\n":
					v = 10
				case "\\t":
					v = 9
				case "\\r":
					v = 13
				case "\\\\":
					v = '\\'
				case "\\'":
					v = '\''
				default:
					return nil, fmt.Errorf("bad rune literal %q", lit)
				}
			} else {
				v = int64([]rune(lit)[0])
			}
			toks = append(toks, stok{"int", fmt.Sprint(v), i})
			i = j + 1
		default:
			matched := false
			for _, op := range ops {
				if strings.HasPrefix(src[i:], op) {
					toks = append(toks, stok{"op", op, i})
					i += len(op)
					matched = true
					break
				}
			}
			if !matched {
				return nil, fmt.Errorf("unexpected character %q at %d in %q", c, i, src)
			}
		}
	}
	toks = append(toks, stok{"eof", "", len(src)})
	return toks, nil
}

type specParser struct {
	toks []stok
	p    int
	src  string
}

func ParseSpec(src string) (e Expr, err error) {
	toks, err := lexSpec(src)
	if err != nil {
		return nil, err
	}
	ps := &specParser{toks: toks, src: src}
	defer func() {
		if r := recover(); r != nil {
			if pe, ok := r.(parseErr); ok {
				err = fmt.Errorf("%s (in %q)", string(pe), src)
				return
			}
			panic(r)
		}
	}()
	e = ps.expr(0)
	if ps.peek().kind != "eof" {
		ps.fail("unexpected %q", ps.peek().text)
	}
	return e, nil
}

type parseErr string

func (ps *specParser) fail(f string, a ...interface{}) {
	panic(parseErr(fmt.Sprintf("spec parse error at %d: ", ps.peek().pos) + fmt.Sprintf(f, a...)))
}
func (ps *specParser) peek() stok { return ps.toks[ps.p] }
func (ps *specParser) next() stok { t := ps.toks[ps.p]; ps.p++; return t }
func (ps *specParser) isOp(s string) bool {
	t := ps.peek()
	return t.kind == "op" && t.text == s
}
func (ps *specParser) expect(s string) {
	if !ps.isOp(s) {
		ps.fail("expected %q, found %q", s, ps.peek().text)
	}
	ps.p++
}

var binPrec = map[string]int{
	"<==>": 1, "==>": 2, "||": 3, "&&": 4,
	"==": 5, "!=": 5, "<": 5, "<=": 5, ">": 5, ">=": 5,
	"+": 6, "-": 6, "|": 6, "^": 6,
	"*": 7, "/": 7, "%": 7, "<<": 7, ">>": 7, "&": 7, "&^": 7,
}

func (ps *specParser) expr(minPrec int) Expr {
	// quantifiers extend as far right as possible
	if t := ps.peek(); t.kind == "id" && (t.text == "forall" || t.text == "exists") {
		ps.p++
		q := &Quant{Forall: t.text == "forall"}
		for {
			n := ps.next()
			if n.kind != "id" {
				ps.fail("quantifier variable expected")
			}
			ty := ps.typeName()
			q.Vars = append(q.Vars, QVar{n.text, ty})
			if ps.isOp(",") {
				ps.p++
				continue
			}
			break
		}
		ps.expect("::")
		q.Body = ps.expr(0)
		return q
	}
	lhs := ps.unary()
	for {
		t := ps.peek()
		if t.kind != "op" {
			return lhs
		}
		prec, ok := binPrec[t.text]
		if !ok || prec < minPrec {
			return lhs
		}
		ps.p++
		var rhs Expr
		if t.text == "==>" || t.text == "<==>" {
			rhs = ps.expr(prec) // right assoc
		} else {
			rhs = ps.expr(prec + 1)
		}
		lhs = &Binary{Op: t.text, X: lhs, Y: rhs}
	}
}

func (ps *specParser) typeName() string {
	var sb strings.Builder
	for ps.isOp("*") || ps.isOp("[") {
		if ps.isOp("[") {
			ps.p++
			ps.expect("]")
			sb.WriteString("[]")
		} else {
			ps.p++
			sb.WriteString("*")
		}
	}
	n := ps.next()
	if n.kind != "id" {
		ps.fail("type name expected, found %q", n.text)
	}
	if n.text == "array" && ps.isOp("[") {
		// ghost array type: array[Idx]Elem
		ps.p++
		idx := ps.typeName()
		ps.expect("]")
		return "array[" + idx + "]" + ps.typeName()
	}
	sb.WriteString(n.text)
	if ps.isOp(".") {
		ps.p++
		m := ps.next()
		sb.WriteString("." + m.text)
	}
	return sb.String()
}

func (ps *specParser) unary() Expr {
	t := ps.peek()
	if t.kind == "op" {
		switch t.text {
		case "!", "-", "^", "+", "&":
			ps.p++
			x := ps.unary()
			return &Unary{Op: t.text, X: x}
		}
	}
	return ps.postfix(ps.primary())
}

func (ps *specParser) primary() Expr {
	t := ps.next()
	switch t.kind {
	case "id":
		switch t.text {
		case "true":
			return &BoolLit{true}
		case "false":
			return &BoolLit{false}
		}
		return &Ident{t.text}
	case "int":
		s := strings.ReplaceAll(t.text, "_", "")
		v, ok := new(big.Int).SetString(s, 0)
		if !ok {
			ps.fail("bad integer literal %q", t.text)
		}
		return &IntLit{v}
	case "str":
		return &StrLit{t.text}
	case "op":
		if t.text == "(" {
			// (*T) form for method refs is not an expression; plain parenthesised expression
			e := ps.expr(0)
			ps.expect(")")
			return e
		}
	}
	ps.fail("unexpected %q", t.text)
	return nil
}

func (ps *specParser) postfix(x Expr) Expr {
	for {
		switch {
		case ps.isOp("."):
			ps.p++
			n := ps.next()
			if n.kind != "id" {
				ps.fail("selector expected")
			}
			x = &Selector{X: x, Sel: n.text}
		case ps.isOp("("):
			ps.p++
			var args []Expr
			for !ps.isOp(")") {
				args = append(args, ps.expr(0))
				if ps.isOp(",") {
					ps.p++
				} else {
					break
				}
			}
			ps.expect(")")
			x = &CallE{Fun: x, Args: args}
		case ps.isOp("["):
			ps.p++
			var lo, hi Expr
			if !ps.isOp(":") {
				lo = ps.expr(0)
			}
			if ps.isOp(":") {
				ps.p++
				if !ps.isOp("]") {
					hi = ps.expr(0)
				}
				ps.expect("]")
				x = &SliceE{X: x, Lo: lo, Hi: hi}
			} else {
				ps.expect("]")
				x = &IndexE{X: x, I: lo}
			}
		default:
			return x
		}
	}
}

func ExprString(e Expr) string {
	switch e := e.(type) {
	case *Ident:
		return e.Name
	case *IntLit:
		return e.Val.String()
	case *BoolLit:
		return fmt.Sprint(e.Val)
	case *StrLit:
		return fmt.Sprintf("%q", e.Val)
	case *Unary:
		return e.Op + ExprString(e.X)
	case *Binary:
		return "(" + ExprString(e.X) + " " + e.Op + " " + ExprString(e.Y) + ")"
	case *CallE:
		var as []string
		for _, a := range e.Args {
			as = append(as, ExprString(a))
		}
		return ExprString(e.Fun) + "(" + strings.Join(as, ", ") + ")"
	case *IndexE:
		return ExprString(e.X) + "[" + ExprString(e.I) + "]"
	case *SliceE:
		lo, hi := "", ""
		if e.Lo != nil {
			lo = ExprString(e.Lo)
		}
		if e.Hi != nil {
			hi = ExprString(e.Hi)
		}
		return ExprString(e.X) + "[" + lo + ":" + hi + "]"
	case *Selector:
		return ExprString(e.X) + "." + e.Sel
	case *Quant:
		q := "exists"
		if e.Forall {
			q = "forall"
		}
		var vs []string
		for _, v := range e.Vars {
			vs = append(vs, v.Name+" "+v.Type)
		}
		return "(" + q + " " + strings.Join(vs, ", ") + " :: " + ExprString(e.Body) + ")"
	}
	return "?"
}
