package vc

// call.go: calls (contracts, inlining, builtins, intrinsics), modifies/havoc/frame, and the
// top-level verification of one function against its contract.

import (
	"fmt"
	"go/token"
	"go/types"
	"sort"
	"strings"

	"golang.org/x/tools/go/ssa"
)

// ---------------------------------------------------------------------------------------------
// modifies sets

// MemRange: array object Arr, optionally restricted to element indexes [Lo, Hi).
type MemRange struct{ Arr, Lo, Hi *Term }

type ModSet struct {
	All      bool
	Ghosts   map[string]bool
	HeapAll  map[string]bool
	HeapRefs map[string][]*Term
	MemAll   map[string]bool
	MemRefs  map[string][]MemRange
	Globals  map[*ssa.Global]bool
	Alloc    bool
	Ev       bool // the ghost event log (evLen and every ev:* array)
	Maps     bool // every map
	AllHeap  bool // every heap, memory, map and global (but no ghost state)
	heapT    map[string]types.Type
	memT     map[string]types.Type
	mapT     []*types.Map // map types named by mapof(): their heaps are created before use
}

func newModSet() *ModSet {
	return &ModSet{Ghosts: map[string]bool{}, HeapAll: map[string]bool{}, HeapRefs: map[string][]*Term{}, MemAll: map[string]bool{},
		MemRefs: map[string][]MemRange{}, Globals: map[*ssa.Global]bool{}, heapT: map[string]types.Type{}, memT: map[string]types.Type{}}
}

// buildModSet evaluates modifies clauses; locations are evaluated in ctx.cur (callers pass the pre-state).
func (e *Engine) buildModSet(ctx *EvalCtx, clauses []*Clause) (*ModSet, error) {
	ms := newModSet()
	for _, cl := range clauses {
		for _, ex := range cl.Es {
			if err := e.addMod(ctx, ms, ex); err != nil {
				return nil, fmt.Errorf("%v at %s", err, cl.Where())
			}
		}
	}
	return ms, nil
}

func (e *Engine) addObjectFields(st *State, ms *ModSet, t types.Type, ref *Term) {
	switch u := t.Underlying().(type) {
	case *types.Struct:
		for i := 0; i < u.NumFields(); i++ {
			key, f := fieldKey(t, i)
			if isAggregate(f.Type()) {
				e.addObjectFields(st, ms, f.Type(), subRef(key, ref))
			} else {
				ms.HeapRefs[key] = append(ms.HeapRefs[key], ref)
				ms.heapT[key] = f.Type()
			}
		}
	case *types.Array:
		k := typeKey(u.Elem())
		ms.MemRefs[k] = append(ms.MemRefs[k], MemRange{Arr: ref})
		ms.memT[k] = u.Elem()
	}
}

func (e *Engine) addMod(ctx *EvalCtx, ms *ModSet, ex Expr) (err error) {
	defer func() {
		if r := recover(); r != nil {
			if ee, ok := r.(evalErr); ok {
				err = fmt.Errorf("%s", string(ee))
				return
			}
			panic(r)
		}
	}()
	switch x := ex.(type) {
	case *Ident:
		if x.Name == "all" {
			ms.All = true
			return nil
		}
		if x.Name == "alloc" {
			ms.Alloc = true
			return nil
		}
		if x.Name == "ev" {
			ms.Ev = true
			return nil
		}
		if x.Name == "maps" {
			ms.Maps = true
			return nil
		}
		if x.Name == "allheap" {
			ms.AllHeap = true
			return nil
		}
		if g, ok := e.cs.Ghosts[x.Name]; ok && !g.IsFunc {
			ms.Ghosts[x.Name] = true
			return nil
		}
		if ctx.pkg != nil {
			if v, ok := ctx.pkg.Scope().Lookup(x.Name).(*types.Var); ok {
				if sp := e.prog.Package(v.Pkg()); sp != nil {
					if g, ok := sp.Members[x.Name].(*ssa.Global); ok {
						ms.Globals[g] = true
						return nil
					}
				}
			}
		}
		return fmt.Errorf("modifies: unknown location %q", x.Name)
	case *CallE:
		switch calleeName(x.Fun) {
		case "mem":
			v := ctx.eval(x.Args[0])
			switch sv := v.V.(type) {
			case SliceV:
				et := v.T.Underlying().(*types.Slice).Elem()
				k := typeKey(et)
				ms.MemRefs[k] = append(ms.MemRefs[k], MemRange{Arr: sv.Arr, Lo: sv.Off, Hi: BVBin("bvadd", sv.Off, sv.Cap)})
				ms.memT[k] = et
				return nil
			case *Term:
				if p, ok := v.T.Underlying().(*types.Pointer); ok {
					if at, ok := p.Elem().Underlying().(*types.Array); ok {
						k := typeKey(at.Elem())
						ms.MemRefs[k] = append(ms.MemRefs[k], MemRange{Arr: sv})
						ms.memT[k] = at.Elem()
						return nil
					}
				}
			}
			return fmt.Errorf("modifies: mem() needs a slice or array pointer")
		case "memall":
			t := ctx.resolveType(calleeName(x.Args[0]))
			ms.MemAll[typeKey(t)] = true
			ms.memT[typeKey(t)] = t
			return nil
		case "obj":
			v := ctx.eval(x.Args[0])
			p, ok := v.T.Underlying().(*types.Pointer)
			if !ok {
				return fmt.Errorf("modifies: obj() needs a pointer")
			}
			e.addObjectFields(ctx.cur, ms, p.Elem(), v.V.(*Term))
			return nil
		case "mapof":
			v := ctx.eval(x.Args[0])
			mt, ok := v.T.Underlying().(*types.Map)
			if !ok {
				return fmt.Errorf("modifies: mapof() needs a map")
			}
			key := "map:" + typeKey(mt)
			_ = ctx.cur.mapState(v.V.(*Term), mt) // creates the map heaps of this type if they do not exist yet
			ms.mapT = append(ms.mapT, mt)
			for _, sfx := range []string{".dom", ".card"} {
				ms.HeapRefs[key+sfx] = append(ms.HeapRefs[key+sfx], v.V.(*Term))
			}
			ms.HeapRefs[key+".val"] = append(ms.HeapRefs[key+".val"], v.V.(*Term))
			return nil
		}
		return fmt.Errorf("modifies: unsupported location %s", ExprString(ex))
	case *Selector:
		// Type.field => whole heap
		if t := ctx.tryType(x.X); t != nil {
			st, ok := t.Underlying().(*types.Struct)
			if !ok {
				return fmt.Errorf("modifies: %s is not a struct type", t)
			}
			for i := 0; i < st.NumFields(); i++ {
				if st.Field(i).Name() == x.Sel {
					key, f := fieldKey(t, i)
					ms.HeapAll[key] = true
					ms.heapT[key] = f.Type()
					return nil
				}
			}
			return fmt.Errorf("modifies: no field %s in %s", x.Sel, t)
		}
		base := ctx.eval(x.X)
		p, ok := base.T.Underlying().(*types.Pointer)
		if !ok {
			return fmt.Errorf("modifies: %s is not a pointer to struct", ExprString(x.X))
		}
		st, ok := p.Elem().Underlying().(*types.Struct)
		if !ok {
			return fmt.Errorf("modifies: %s is not a pointer to struct", ExprString(x.X))
		}
		for i := 0; i < st.NumFields(); i++ {
			if st.Field(i).Name() == x.Sel {
				key, f := fieldKey(p.Elem(), i)
				ref := base.V.(*Term)
				if isAggregate(f.Type()) {
					e.addObjectFields(ctx.cur, ms, f.Type(), subRef(key, ref))
				} else {
					ms.HeapRefs[key] = append(ms.HeapRefs[key], ref)
					ms.heapT[key] = f.Type()
				}
				return nil
			}
		}
		return fmt.Errorf("modifies: no field %s", x.Sel)
	}
	return fmt.Errorf("modifies: unsupported location %s", ExprString(ex))
}

func (e *Engine) havocList(st *State, ctx *EvalCtx, cl *Clause) {
	ms, err := e.buildModSet(ctx, []*Clause{cl})
	if err != nil {
		e.failObl("resolve", "modifies", err.Error())
		return
	}
	e.havoc(st, ms)
}

// The ghost event log is append-only by construction (only logEvent writes it, at index evLen,
// and then increments evLen). Whatever a callee does, the entries below the length at the call
// survive and the length does not shrink. evSnapshot/evAppendOnly state exactly that for the
// arrays that exist at the call (an array that does not exist yet has no recorded facts).
type evSnap struct {
	n    *Term
	arrs map[string]*Term
}

func (e *Engine) evSnapshot(st *State) *evSnap {
	s := &evSnap{n: st.evLen(), arrs: map[string]*Term{}}
	for _, k := range sortedKeysV(st.Ghost) {
		if strings.HasPrefix(k, "ev:") {
			if t, ok := st.Ghost[k].(*Term); ok {
				s.arrs[k] = t
			}
		}
	}
	return s
}

func (e *Engine) evAppendOnly(st *State, old *evSnap) {
	if _, ok := st.Ghost["evLen"]; !ok {
		st.Ghost["evLen"] = Fresh("G:evLen", BV64)
	}
	st.Assume(BVCmp("bvule", old.n, st.evLen()))
	st.Assume(BVCmp("bvult", st.evLen(), BVU(1<<62, 64))) // A-EVLEN
	var ks []string
	for k := range old.arrs {
		ks = append(ks, k)
	}
	sort.Strings(ks)
	for _, k := range ks {
		oa := old.arrs[k]
		na := st.evArray(k, oa.Sort.Elem)
		if na == oa {
			continue
		}
		T.fresh["q:ev"]++
		i := Var(fmt.Sprintf("ev?%d", T.fresh["q:ev"]), BV64)
		st.Assume(Forall([]*Term{i}, Implies(BVCmp("bvult", i, old.n), Eq(Select(na, i), Select(oa, i)))))
	}
}

func (e *Engine) havoc(st *State, ms *ModSet) {
	for _, mt := range ms.mapT {
		_ = st.mapState(BVU(0, 64), mt)
	}
	if ms.All {
		evOld := e.evSnapshot(st)
		defer e.evAppendOnly(st, evOld)
		e.havocHeaps(st, nil)
		e.havocMems(st)
		e.havocGhosts(st, func(k string) bool { return !strings.Contains(k, "!") }, "hv:")
		e.havocGlobs(st)
		st.HavocAll++
		st.Epoch = newEpoch()
		st.EpochMaps = ""
		st.EpochEv = st.Epoch
		st.EpochGhost = st.Epoch
		e.growAlloc(st)
		return
	}
	if ms.AllHeap {
		e.havocHeaps(st, nil)
		e.havocMems(st)
		e.havocGlobs(st)
		st.HavocAll++
		st.Epoch = newEpoch()
		st.EpochMaps = ""
		e.growAlloc(st)
	}
	if ms.Maps && !ms.AllHeap {
		e.havocHeaps(st, func(k string) bool { return strings.HasPrefix(k, "map:") })
		st.HavocMaps++
		st.EpochMaps = newEpoch()
	}
	if ms.Ev {
		evOld := e.evSnapshot(st)
		e.havocGhosts(st, func(k string) bool { return strings.HasPrefix(k, "ev:") || k == "evLen" || k == "evPanic" }, "G:")
		if _, ok := st.Ghost["evLen"]; !ok {
			st.Ghost["evLen"] = Fresh("G:evLen", BV64)
		}
		st.HavocEv++
		st.EpochEv = newEpoch()
		e.evAppendOnly(st, evOld)
	}
	for _, name := range sortedKeysB(ms.Ghosts) {
		g := e.cs.Ghosts[name]
		ctx := &EvalCtx{eng: e, cur: st, old: st}
		t := ctx.resolveType(g.Type)
		cur := st.ghostVal(name, t)
		st.Ghost[name] = mapLeaves(cur, func(x *Term) *Term { return Fresh("G:"+name, x.Sort) })
	}
	keys := func(m map[string][]*Term) []string {
		var ks []string
		for k := range m {
			ks = append(ks, k)
		}
		sort.Strings(ks)
		return ks
	}
	for _, k := range sortedKeysB(ms.HeapAll) {
		h := st.heapByKey(k, ms.heapT[k])
		st.Heaps[k] = mapLeaves(h, func(t *Term) *Term { return Fresh("hv:"+k, t.Sort) })
	}
	for _, k := range keys(ms.HeapRefs) {
		if ms.HeapAll[k] {
			continue
		}
		h := st.heapByKey(k, ms.heapT[k])
		for _, r := range ms.HeapRefs[k] {
			h = mapLeaves(h, func(t *Term) *Term { return Store(t, r, Fresh("hv:"+k, t.Sort.Elem)) })
		}
		st.Heaps[k] = h
	}
	for _, k := range sortedKeysB(ms.MemAll) {
		m := st.Mem(ms.memT[k])
		st.Mems[k] = mapLeaves(m, func(t *Term) *Term { return Fresh("hv:"+k, t.Sort) })
	}
	var memKeys []string
	for k := range ms.MemRefs {
		memKeys = append(memKeys, k)
	}
	sort.Strings(memKeys)
	for _, k := range memKeys {
		if ms.MemAll[k] {
			continue
		}
		m := st.Mem(ms.memT[k])
		for _, r := range ms.MemRefs[k] {
			r := r
			m = mapLeaves(m, func(t *Term) *Term {
				na := Fresh("hv:"+k, t.Sort.Elem)
				if r.Lo != nil {
					T.fresh["q:h"]++
					i := Var(fmt.Sprintf("h?%d", T.fresh["q:h"]), BV64)
					old := Select(t, r.Arr)
					st.Assume(Forall([]*Term{i}, Implies(Or(BVCmp("bvult", i, r.Lo), BVCmp("bvuge", i, r.Hi)), Eq(Select(na, i), Select(old, i)))))
				}
				return Store(t, r.Arr, na)
			})
		}
		st.Mems[k] = m
	}
	for _, g := range sortedGlobalSet(ms.Globals) {
		t := globalElemType(g)
		if isAggregate(t) {
			st.StoreObject(t, globalRef(g), freshOf("hv:glob", t, nil, false))
		} else {
			st.Globs[g] = freshOf("hv:glob", t, nil, false)
		}
	}
	if ms.Alloc {
		e.growAlloc(st)
	}
}

// growAlloc: the callee may have allocated; everything allocated before stays allocated.
func (e *Engine) growAlloc(st *State) {
	old := st.Alloc
	na := Fresh("alloc", old.Sort)
	r := Var("r?alloc", RefSort)
	st.Assume(Forall([]*Term{r}, Implies(Select(old, r), Select(na, r))))
	st.Alloc = na
	// the ghost allocation counter (bytes requested by make) can only have grown
	if g, ok := e.cs.Ghosts["allocBytes"]; ok && !g.IsFunc {
		cur := st.ghostVal("allocBytes", types.Typ[types.Uint64]).(*Term)
		nv := Fresh("G:allocBytes", BV64)
		st.Assume(And(BVCmp("bvule", cur, nv), BVCmp("bvult", nv, BVU(1<<62, 64)))) // A-ALLOC: no wrap
		st.Ghost["allocBytes"] = nv
	}
}

var epochCounter int

func newEpoch() string {
	epochCounter++
	return fmt.Sprintf("!e%d", epochCounter)
}

func (s *State) heapByKey(key string, ft types.Type) Value {
	if h, ok := s.Heaps[key]; ok {
		return h
	}
	if ft == nil {
		execFail("heap %s has no known type", key)
	}
	return s.Heap(key, ft)
}

// ---------------------------------------------------------------------------------------------
// frame checking of the function under verification

func rootAndStores(t *Term) (*Term, []*Term) {
	var idx []*Term
	for t.Op == "store" {
		idx = append(idx, t.Args[1])
		t = t.Args[0]
	}
	return t, idx
}

func isInitialVar(t *Term) bool {
	return t.Op == "var" && (strings.HasPrefix(t.Name, "H:") || strings.HasPrefix(t.Name, "M:") || strings.HasPrefix(t.Name, "G:") || strings.HasPrefix(t.Name, "Glob:")) && !strings.Contains(t.Name, "!")
}

func (e *Engine) checkFrame(p *Path, ms *ModSet, entry *State, exitKind string, pos token.Pos) {
	if ms == nil || ms.All {
		return
	}
	st := p.st
	alloc0 := entry.Alloc
	var hk []string
	for k := range st.Heaps {
		hk = append(hk, k)
	}
	sort.Strings(hk)
	check := func(kind, key string, leaf *Term, all bool, refs []*Term, ranges []MemRange) {
		if all || ms.AllHeap {
			return
		}
		if ms.Maps && strings.HasPrefix(key, "map:") {
			return
		}
		root, idx := rootAndStores(leaf)
		if !isInitialVar(root) {
			e.Obls = append(e.Obls, &Obligation{Name: e.oblName("frame", exitKind+":"+key), Kind: "frame", Func: shortFuncName(e.curFn),
				Failed: "location " + key + " was havocked entirely but is not in the modifies clause"})
			return
		}
		seen := map[*Term]bool{}
		for _, ix := range idx {
			if seen[ix] {
				continue
			}
			seen[ix] = true
			alts := []*Term{Not(Select(alloc0, ix))}
			for _, r := range refs {
				alts = append(alts, Eq(ix, r))
			}
			if len(ranges) > 0 {
				T.fresh["q:f"]++
				k := Var(fmt.Sprintf("f!%d", T.fresh["q:f"]), BV64)
				same := Eq(Select(Select(leaf, ix), k), Select(Select(root, ix), k))
				for _, r := range ranges {
					if r.Lo == nil {
						alts = append(alts, Eq(ix, r.Arr))
					} else {
						alts = append(alts, And(Eq(ix, r.Arr), Or(And(BVCmp("bvule", r.Lo, k), BVCmp("bvult", k, r.Hi)), same)))
					}
				}
				alts = append(alts, same)
			} else {
				// a store of the value already there is no modification
				alts = append(alts, Eq(Select(leaf, ix), Select(root, ix)))
			}
			e.obligeKeep(p, "frame", exitKind+":"+key, pos, Or(alts...), "modifies")
		}
	}
	for _, k := range hk {
		for _, leaf := range leaves(st.Heaps[k]) {
			check("heap", k, leaf, ms.HeapAll[k], ms.HeapRefs[k], nil)
		}
	}
	var mk []string
	for k := range st.Mems {
		mk = append(mk, k)
	}
	sort.Strings(mk)
	for _, k := range mk {
		for _, leaf := range leaves(st.Mems[k]) {
			check("mem", k, leaf, ms.MemAll[k], nil, ms.MemRefs[k])
		}
	}
	for _, name := range sortedKeysV(st.Ghost) {
		v := st.Ghost[name]
		if strings.Contains(name, "!") || ms.Ghosts[name] {
			continue
		}
		if ms.Ev && (name == "evLen" || strings.HasPrefix(name, "ev:")) {
			continue
		}
		if name == "allocBytes" {
			// part of `alloc`: whoever may allocate may advance the counter
			continue
		}
		if name == "evPanic" {
			// set by the model itself when a receiver call panics; belongs to the event log
			continue
		}
		for _, leaf := range leaves(v) {
			if !isInitialVar(leaf) {
				e.Obls = append(e.Obls, &Obligation{Name: e.oblName("frame", exitKind+":ghost:"+name), Kind: "frame", Func: shortFuncName(e.curFn),
					Failed: "ghost " + name + " modified but not in the modifies clause"})
			}
		}
	}
	for _, g := range sortedGlobals(st.Globs) {
		v := st.Globs[g]
		if ms.Globals[g] || e.isConstGlobal(g) || ms.AllHeap {
			continue
		}
		if _, ok := v.(*OpaqueV); ok {
			continue
		}
		if _, ok := v.(*Term); ok && isAggregate(globalElemType(g)) {
			continue
		}
		for _, leaf := range leaves(v) {
			if !isInitialVar(leaf) {
				e.Obls = append(e.Obls, &Obligation{Name: e.oblName("frame", exitKind+":global:"+g.Name()), Kind: "frame", Func: shortFuncName(e.curFn),
					Failed: "global " + g.Name() + " modified but not in the modifies clause"})
			}
		}
	}
}

// ---------------------------------------------------------------------------------------------
// contexts

func (e *Engine) pkgOfFunc(fn *ssa.Function) *types.Package {
	for fn.Parent() != nil {
		fn = fn.Parent()
	}
	if fn.Pkg != nil {
		return fn.Pkg.Pkg
	}
	if fn.Object() != nil {
		return fn.Object().Pkg()
	}
	return nil
}

// funcCtx: evaluation context for the contract of the function running in frame fr.
func (e *Engine) funcCtx(p *Path, fr *Frame, old *State) *EvalCtx {
	env := map[string]TV{}
	for _, prm := range fr.fn.Params {
		if v, ok := fr.env[prm]; ok {
			env[prm.Name()] = TV{V: v, T: prm.Type()}
		}
	}
	for _, fv := range fr.fn.FreeVars {
		if v, ok := fr.env[fv]; ok {
			if pv, isPtr := v.(*PtrV); isPtr && pv.Kind == PCell {
				if cv, ok := p.st.Cells[pv.Cell]; ok {
					env[fv.Name()] = TV{V: cv, T: fv.Type().Underlying().(*types.Pointer).Elem()}
				}
			} else {
				env[fv.Name()] = TV{V: v, T: fv.Type()}
			}
		}
	}
	for k, v := range fr.lets {
		env[k] = v
	}
	ctx := &EvalCtx{eng: e, pkg: e.pkgOfFunc(fr.fn), cur: p.st, old: old, env: env}
	if fr.ct != nil {
		var names []string
		var ptys []types.Type
		for _, prm := range fr.fn.Params {
			names = append(names, prm.Name())
			ptys = append(ptys, prm.Type())
		}
		ctx.unknown = func(name string) (TV, bool) {
			if i, ok := e.renamedParam(fr.ct, names, ptys, fr.fn.Signature, e.pkgOfFunc(fr.fn), name); ok {
				if v, has := fr.env[fr.fn.Params[i]]; has {
					return TV{V: v, T: fr.fn.Params[i].Type()}, true
				}
			}
			return TV{}, false
		}
	}
	return ctx
}

func bindResults(env map[string]TV, sig *types.Signature, res []Value) {
	rs := sig.Results()
	for i := 0; i < rs.Len() && i < len(res); i++ {
		tv := TV{V: res[i], T: rs.At(i).Type()}
		env[fmt.Sprintf("result%d", i)] = tv
		if i == 0 {
			env["result"] = tv
		}
		if n := rs.At(i).Name(); n != "" && n != "_" {
			env[n] = tv
		}
	}
}

// ---------------------------------------------------------------------------------------------
// calls

func (e *Engine) doCall(p *Path, fr *Frame, c *ssa.CallCommon, dst ssa.Value, pos token.Pos) []*Path {
	fnVal := e.get(fr, c.Value)
	var args []Value
	for _, a := range c.Args {
		args = append(args, e.get(fr, a))
	}
	return e.doCallValues(p, fr, c, fnVal, args, dst, false, pos)
}

func ifaceMethodKey(t types.Type, method string) string {
	return types.TypeString(t, func(p *types.Package) string { return p.Name() }) + "." + method
}

func (e *Engine) doCallValues(p *Path, fr *Frame, c *ssa.CallCommon, fnVal Value, args []Value, dst ssa.Value, isDefer bool, pos token.Pos) []*Path {
	if c.IsInvoke() {
		key := ifaceMethodKey(c.Value.Type(), c.Method.Name())
		ct := e.cs.Ifaces[key]
		if ct == nil {
			ct = e.cs.Ifaces[ifaceMethodKey(c.Value.Type(), "*")]
		}
		if ct == nil {
			// method may come from an embedded interface: try all named interfaces that declare it
			if it, ok := c.Value.Type().Underlying().(*types.Interface); ok {
				for i := 0; i < it.NumEmbeddeds(); i++ {
					if k2 := ifaceMethodKey(it.EmbeddedType(i), c.Method.Name()); e.cs.Ifaces[k2] != nil {
						ct = e.cs.Ifaces[k2]
						key = k2
					}
				}
			}
		}
		sig := c.Method.Type().(*types.Signature)
		names := []string{"recv"}
		tys := []types.Type{c.Value.Type()}
		for i := 0; i < sig.Params().Len(); i++ {
			n := sig.Params().At(i).Name()
			if n == "" || n == "_" {
				n = fmt.Sprintf("arg%d", i)
			}
			names = append(names, n)
			tys = append(tys, sig.Params().At(i).Type())
		}
		all := append([]Value{fnVal}, args...)
		var nilForks []*Path
		if rt, ok := fnVal.(*Term); ok {
			nilForks = e.runtimePanic(p, "nil-interface-call", pos, Ne(rt, NilIface))
			if p.top().mode == 2 {
				return nilForks
			}
		}
		if ct != nil {
			if disp, ok := e.dispatch[key]; ok {
				return append(nilForks, disp(p, fr, c, fnVal, args, dst, pos)...)
			}
			e.TrustedUse["iface "+key] = true
			var pk *types.Package
			if c.Method.Pkg() != nil {
				pk = c.Method.Pkg()
			}
			return append(nilForks, e.applyContract(p, fr, ct, key, pk, sig, names, tys, all, dst, pos)...)
		}
		if lg := e.logIface(c.Value.Type()); lg != "" {
			return append(nilForks, e.logInvoke(p, fr, lg, c, fnVal, args, dst, pos)...)
		}
		if cw := e.closedWorld(c.Value.Type()); cw != nil {
			return append(nilForks, e.dispatchClosed(p, fr, cw, c, fnVal, args, dst, isDefer, pos)...)
		}
		return append(nilForks, e.unknownCall(p, fr, "invoke "+key, sig, dst, pos)...)
	}
	switch callee := c.Value.(type) {
	case *ssa.Builtin:
		return e.builtin(p, fr, callee.Name(), c, args, dst, pos)
	}
	var fn *ssa.Function
	var bind []Value
	if ft, ok := fnVal.(*Term); ok {
		if fv := closureOf(ft); fv != nil {
			fnVal = fv
		}
	}
	switch fv := fnVal.(type) {
	case *FuncV:
		fn, bind = fv.Fn, fv.Bind
	default:
		sig, _ := c.Value.Type().Underlying().(*types.Signature)
		// call through a function value of unknown identity: field contract?
		if ct := e.fieldContractFor(c.Value); ct != nil {
			names, tys := sigNames(sig, nil)
			return e.applyContract(p, fr, ct, ct.Target, e.pkgOfFunc(fr.fn), sig, names, tys, args, dst, pos)
		}
		return e.unknownCall(p, fr, "call through function value "+c.Value.Name(), sig, dst, pos)
	}
	key := funcKey(fn)
	if r, handled := e.intrinsic(p, fr, key, fn, args); handled {
		if dst != nil {
			fr.env[dst] = r
		}
		return nil
	}
	ct := e.cs.Funcs[key]
	if ct != nil {
		ct.Used = true
	}
	if ct == nil && e.inInit && len(fn.Blocks) > 0 && strings.HasPrefix(fn.Name(), "init#") && fn.Pkg == e.curFn.Pkg && len(loopsOf(fn)) > 0 {
		// a user-written init function with loops (filling a table): not executed. Every package-level
		// variable it mentions (directly or through functions it calls) is excluded from const_global
		// facts; the variables it does not touch keep their initialiser values.
		if e.initTainted == nil {
			e.initTainted = map[*ssa.Global]bool{}
		}
		seen := map[*ssa.Function]bool{}
		var scan func(f *ssa.Function)
		scan = func(f *ssa.Function) {
			if f == nil || seen[f] || len(seen) > 200 {
				return
			}
			seen[f] = true
			for _, b := range f.Blocks {
				for _, in := range b.Instrs {
					for _, op := range in.Operands(nil) {
						switch x := (*op).(type) {
						case *ssa.Global:
							e.initTainted[x] = true
						case *ssa.Function:
							if x.Pkg == fn.Pkg {
								scan(x)
							}
						}
					}
				}
			}
			for _, a := range f.AnonFuncs {
				scan(a)
			}
		}
		scan(fn)
		e.note("init function %s of %s has loops and is not executed; the %d package variables it mentions are not treated as constants", fn.Name(), fn.Pkg.Pkg.Path(), len(e.initTainted))
		return nil
	}
	if (ct != nil && ct.Inline) || (ct == nil && fn.Parent() != nil && len(fn.Blocks) > 0) || (ct == nil && e.inInit && len(fn.Blocks) > 0 && strings.HasPrefix(fn.Name(), "init#") && fn.Pkg == e.curFn.Pkg) {
		nf := e.newFrame(fn, args, bind)
		nf.retDst = dst
		nf.isDefer = isDefer
		nf.ct = ct
		if len(p.stack) > 40 {
			execFail("inlining too deep at %s", fn)
		}
		p.stack = append(p.stack, nf)
		return nil
	}
	if ct != nil {
		if ct.Trusted {
			e.TrustedUse["extern "+key] = true
		}
		names, tys := sigNames(fn.Signature, fn)
		return e.applyContract(p, fr, ct, shortKey(key), e.pkgOfFunc(fn), fn.Signature, names, tys, args, dst, pos)
	}
	if (e.curCt == nil || !e.curCt.Havoc) && e.autoInlinable(p, fn) {
		// A helper of this module that has no contract, no loop and is not already being executed is
		// executed in place: extracting a few statements into a function does not change what is proved.
		e.AutoInlined[shortKey(key)] = true
		nf := e.newFrame(fn, args, bind)
		nf.autoInl = true
		nf.retDst = dst
		nf.isDefer = isDefer
		if len(p.stack) > 40 {
			execFail("inlining too deep at %s", fn)
		}
		p.stack = append(p.stack, nf)
		return nil
	}
	return e.unknownCall(p, fr, key, fn.Signature, dst, pos)
}

// autoInlinable: a function of the module under verification with a body, without loops, not on the
// current call stack (no recursion) and not too deep.
func (e *Engine) autoInlinable(p *Path, fn *ssa.Function) bool {
	if fn == nil || len(fn.Blocks) == 0 || fn.Pkg == nil || fn.Pkg.Pkg == nil {
		return false
	}
	if pp := fn.Pkg.Pkg.Path(); pp != ModulePath && !strings.HasPrefix(pp, ModulePath+"/") {
		return false
	}
	if len(fn.Blocks) > 40 {
		return false
	}
	auto := 0
	for _, f := range p.stack {
		if f.fn == fn {
			return false
		}
		if f.autoInl {
			auto++
		}
	}
	if auto >= 3 {
		return false
	}
	for _, b := range fn.Blocks {
		for _, s := range b.Succs {
			if s.Dominates(b) {
				return false
			}
		}
		for _, in := range b.Instrs {
			switch in.(type) {
			case *ssa.Go, *ssa.Select:
				return false
			}
		}
	}
	return true
}

func shortKey(k string) string {
	return strings.Replace(strings.TrimPrefix(k, ModulePath+"/"), "::", ".", 1)
}

func sigNames(sig *types.Signature, fn *ssa.Function) ([]string, []types.Type) {
	var names []string
	var tys []types.Type
	if fn != nil {
		for i, prm := range fn.Params {
			n := prm.Name()
			if n == "" || n == "_" {
				n = fmt.Sprintf("arg%d", i)
			}
			names = append(names, n)
			tys = append(tys, prm.Type())
		}
		return names, tys
	}
	for i := 0; i < sig.Params().Len(); i++ {
		n := sig.Params().At(i).Name()
		if n == "" || n == "_" {
			n = fmt.Sprintf("arg%d", i)
		}
		names = append(names, n)
		tys = append(tys, sig.Params().At(i).Type())
	}
	return names, tys
}

// unknownCall: callee without contract.
func (e *Engine) unknownCall(p *Path, fr *Frame, what string, sig *types.Signature, dst ssa.Value, pos token.Pos) []*Path {
	if e.curCt == nil || !e.curCt.Havoc {
		// an error only if the call is reachable: the obligation is "this point is unreachable"
		e.oblige(p, "call", what, pos, False, "call to a function without contract (add a contract, mark it inline, or list it as trusted) - or show that the call cannot be reached")
		p.done = true
		return nil
	}
	if !e.inInit {
		e.Abstract["uncontracted callee treated as havoc+may-panic: "+shortKey(what)] = true
	}
	ms := newModSet()
	ms.All = true
	var forks []*Path
	if !e.inInit {
		e.havoc(p.st, ms)
		p2 := p.clone()
		e.raisePanic(p2)
		forks = append(forks, p2)
	}
	if dst != nil && sig != nil {
		rs := sig.Results()
		switch rs.Len() {
		case 0:
		case 1:
			v := freshOf("ret", rs.At(0).Type(), nil, false)
			p.st.assumeWF(v, rs.At(0).Type())
			fr.env[dst] = v
		default:
			v := freshOf("ret", rs, nil, false)
			fr.env[dst] = v
		}
	}
	return forks
}

// applyContract replaces a call by its contract.
func (e *Engine) applyContract(p *Path, fr *Frame, ct *Contract, what string, pkg *types.Package, sig *types.Signature,
	names []string, tys []types.Type, args []Value, dst ssa.Value, pos token.Pos) []*Path {
	ct.Used = true
	if ct.Pkg != "" {
		if tp := e.typesPkg(ct.Pkg); tp != nil {
			pkg = tp
		}
	}
	env := map[string]TV{}
	for i, n := range names {
		if i < len(args) {
			env[n] = TV{V: args[i], T: tys[i]}
			env[fmt.Sprintf("arg%d", i)] = TV{V: args[i], T: tys[i]}
		}
	}
	// a name of the contract that is not a parameter (any more): see rename.go
	unk := func(name string) (TV, bool) {
		if ct.Kind != "func" {
			return TV{}, false
		}
		if i, ok := e.renamedParam(ct, names, tys, sig, pkg, name); ok && i < len(args) {
			return TV{V: args[i], T: tys[i]}, true
		}
		return TV{}, false
	}
	// case splits requested by the contract: fork the path so that the condition is decided
	for _, cs := range ct.Cases {
		cctx := &EvalCtx{eng: e, pkg: pkg, cur: p.st, old: p.st, env: env, unknown: unk}
		t, err := cctx.EvalBool(cs.E)
		if err != nil {
			e.failObl("resolve", "cases@"+what, err.Error()+" at "+cs.Where())
			p.done = true
			return nil
		}
		t = p.st.Simp(t)
		if t == True || t == False {
			continue
		}
		p2 := p.clone()
		p.st.Assume(t)
		p2.st.Assume(Not(t))
		forks := e.applyContract(p2, p2.top(), ct, what, pkg, sig, names, tys, args, dst, pos)
		forks = append(forks, p2)
		return append(forks, e.applyContract(p, fr, ct, what, pkg, sig, names, tys, args, dst, pos)...)
	}
	pre := p.st.Clone()
	ctx := &EvalCtx{eng: e, pkg: pkg, cur: p.st, old: pre, env: env, unknown: unk}
	for _, l := range ct.Lets {
		tv, err := ctx.Eval(l.E)
		if err != nil {
			e.failObl("resolve", "let@"+what, err.Error()+" at "+l.Where())
			p.done = true
			return nil
		}
		env[l.Text] = tv
	}
	for i, r := range ct.Requires {
		t, err := ctx.EvalBool(r.E)
		if err != nil {
			e.failObl("resolve", "pre@"+what, err.Error()+" at "+r.Where())
			p.done = true
			return nil
		}
		e.oblige(p, "pre", fmt.Sprintf("%s.%d@%s", what, i, lineOf(e.posOf(pos))), pos, t, r.Text)
	}
	if p.st.Dead {
		return nil
	}
	pre = p.st.Clone()
	ctx.old = pre
	// modifies
	mctx := *ctx
	mctx.cur = pre
	ms, err := e.buildModSet(&mctx, ct.Modifies)
	if err != nil {
		e.failObl("resolve", "modifies@"+what, err.Error())
		p.done = true
		return nil
	}
	e.havoc(p.st, ms)
	var fwd *fwdResult
	if len(ct.Forwards) > 0 {
		fctx := &EvalCtx{eng: e, pkg: pkg, cur: pre, old: pre, env: env, unknown: unk}
		fwd, err = e.evalForwards(fctx, ct, pre)
		if err != nil {
			e.failObl("resolve", "forwards@"+what, err.Error())
			p.done = true
			return nil
		}
	}
	// exceptional path
	var forks []*Path
	canPanic := ct.MayPanic || len(ct.XEnsures) > 0 || len(ct.Panics) > 0 || ct.NoReturn
	var panicConds []*Term
	for _, pc := range ct.Panics {
		t, err := (&EvalCtx{eng: e, pkg: pkg, cur: pre, old: pre, env: env, unknown: unk}).EvalBool(pc.E)
		if err != nil {
			e.failObl("resolve", "panics@"+what, err.Error()+" at "+pc.Where())
			p.done = true
			return nil
		}
		panicConds = append(panicConds, t)
	}
	if canPanic {
		cond := True
		if len(ct.Panics) > 0 {
			cond = Or(panicConds...)
		}
		if cond != False {
			p2 := p.clone()
			p2.st.Assume(cond)
			if fwd != nil {
				fwd.apply(p2.st, true)
			}
			c2 := &EvalCtx{eng: e, pkg: pkg, cur: p2.st, old: pre, env: env, unknown: unk}
			bad := false
			for _, x := range ct.XEnsures {
				t, err := c2.EvalBool(x.E)
				if err != nil {
					e.failObl("resolve", "xensures@"+what, err.Error()+" at "+x.Where())
					bad = true
					break
				}
				p2.st.Assume(t)
			}
			if !bad && !p2.st.Dead {
				e.raisePanic(p2)
				forks = append(forks, p2)
			}
		}
	}
	if ct.NoReturn {
		p.done = true
		return forks
	}
	if len(ct.Panics) > 0 {
		p.st.Assume(Not(Or(panicConds...)))
	}
	if fwd != nil {
		fwd.apply(p.st, false)
	}
	// results
	var res []Value
	rs := sig.Results()
	for i := 0; i < rs.Len(); i++ {
		v := freshOf("ret:"+what, rs.At(i).Type(), nil, false)
		p.st.assumeWF(v, rs.At(i).Type())
		res = append(res, v)
	}
	renv := make(map[string]TV, len(env)+4)
	for k, v := range env {
		renv[k] = v
	}
	bindResults(renv, sig, res)
	c3 := &EvalCtx{eng: e, pkg: pkg, cur: p.st, old: pre, env: renv, unknown: unk}
	for _, en := range ct.Ensures {
		t, err := c3.EvalBool(en.E)
		if err != nil {
			e.failObl("resolve", "ensures@"+what, err.Error()+" at "+en.Where())
			p.done = true
			return forks
		}
		p.st.Assume(t)
	}
	if dst != nil {
		switch len(res) {
		case 0:
		case 1:
			fr.env[dst] = res[0]
		default:
			fr.env[dst] = &TupleV{E: res}
		}
	}
	return forks
}

func lineOf(pos string) string {
	if k := strings.LastIndex(pos, ":"); k >= 0 {
		return pos[k+1:]
	}
	return pos
}

// ---------------------------------------------------------------------------------------------
// builtins and intrinsics

func (e *Engine) builtin(p *Path, fr *Frame, name string, c *ssa.CallCommon, args []Value, dst ssa.Value, pos token.Pos) []*Path {
	set := func(v Value) {
		if dst != nil {
			fr.env[dst] = v
		}
	}
	st := p.st
	switch name {
	case "len", "cap":
		switch v := args[0].(type) {
		case SliceV:
			if name == "cap" {
				set(v.Cap)
			} else {
				set(v.Len)
			}
		case StringV:
			set(v.Len)
		case *Term:
			if mt, ok := c.Args[0].Type().Underlying().(*types.Map); ok {
				card := st.mapState(v, mt).Card
				st.Assume(BVCmp("bvule", card, maxLen)) // A-SIZE: a map holds at most 2^40 entries
				set(Ite(Eq(v, BVU(0, 64)), BVU(0, 64), card))
			} else if pt, ok := c.Args[0].Type().Underlying().(*types.Pointer); ok {
				set(BVU(uint64(pt.Elem().Underlying().(*types.Array).Len()), 64))
			} else {
				execFail("len of %s", c.Args[0].Type())
			}
		case *ArrayV:
			set(BVU(uint64(c.Args[0].Type().Underlying().(*types.Array).Len()), 64))
		default:
			set(e.opaqueResult(types.Typ[types.Int], "len of opaque"))
		}
		return nil
	case "recover":
		// valid only directly inside a deferred call whose parent frame is unwinding
		if fr.isDefer && len(p.stack) >= 2 {
			parent := p.stack[len(p.stack)-2]
			if parent.mode == 2 && parent.panicked && !parent.recov {
				parent.recov = true
				r := Fresh("recovered", IfaceSrt)
				st.Assume(Ne(r, NilIface))
				st.Assume(Ne(ifaceTag(r), BVU(0, 32)))
				set(r)
				return nil
			}
		}
		set(NilIface)
		return nil
	case "print", "println":
		return nil
	case "append":
		return e.appendBuiltin(p, fr, c, args, dst, pos)
	case "copy":
		return e.copyBuiltin(p, fr, c, args, dst, pos)
	case "delete":
		ref, ok := args[0].(*Term)
		if !ok {
			return nil
		}
		mt := c.Args[0].Type().Underlying().(*types.Map)
		ms := st.mapState(ref, mt)
		k := e.keyTerm(args[1], mt.Key())
		was := Select(ms.Dom, k)
		ns := &MapState{Dom: Store(ms.Dom, k, False), Val: ms.Val, Card: Ite(was, BVBin("bvsub", ms.Card, BVU(1, 64)), ms.Card)}
		st.setMapState(ref, mt, ns)
		return nil
	case "min", "max":
		a, b := args[0].(*Term), args[1].(*Term)
		signed := isSigned(c.Args[0].Type())
		lt := BVCmp("bvult", a, b)
		if signed {
			lt = BVCmp("bvslt", a, b)
		}
		if name == "min" {
			set(Ite(lt, a, b))
		} else {
			set(Ite(lt, b, a))
		}
		return nil
	case "ssa:wrapnilchk":
		set(args[0])
		return nil
	}
	execFail("unsupported builtin %s", name)
	return nil
}

func (e *Engine) seqSource(st *State, v Value, t types.Type) (length *Term, get func(leafIdx int, k *Term) *Term, nleaves int, et types.Type) {
	switch s := v.(type) {
	case SliceV:
		et = t.Underlying().(*types.Slice).Elem()
		m := st.Mem(et)
		ls := leaves(m)
		return s.Len, func(li int, k *Term) *Term { return Select(Select(ls[li], s.Arr), BVBin("bvadd", s.Off, k)) }, len(ls), et
	case StringV:
		return s.Len, func(li int, k *Term) *Term { return Select(s.Chars, BVBin("bvadd", s.Off, k)) }, 1, types.Typ[types.Uint8]
	}
	execFail("sequence expected, got %s", describeValue(v))
	return
}

// writeRange returns new per-leaf arrays equal to old except that [start, start+n) holds src[0..n).
func (e *Engine) writeRange(st *State, et types.Type, arr *Term, start, n *Term, src func(li int, k *Term) *Term) {
	key := typeKey(et)
	m := st.Mem(et)
	li := -1
	st.Mems[key] = mapLeaves(m, func(t *Term) *Term {
		li++
		l := li
		old := Select(t, arr)
		if n.IsConst() && n.Val.IsInt64() && n.Val.Int64() <= 32 {
			na := old
			for i := int64(0); i < n.Val.Int64(); i++ {
				k := BVU(uint64(i), 64)
				na = Store(na, BVBin("bvadd", start, k), src(l, k))
			}
			return Store(t, arr, na)
		}
		na := Fresh("arr", old.Sort)
		T.fresh["q:w"]++
		i := Var(fmt.Sprintf("w?%d", T.fresh["q:w"]), BV64)
		in := And(BVCmp("bvule", start, i), BVCmp("bvult", i, BVBin("bvadd", start, n)))
		st.Assume(Forall([]*Term{i}, Eq(Select(na, i), Ite(in, src(l, BVBin("bvsub", i, start)), Select(old, i)))))
		return Store(t, arr, na)
	})
}

func (e *Engine) appendBuiltin(p *Path, fr *Frame, c *ssa.CallCommon, args []Value, dst ssa.Value, pos token.Pos) []*Path {
	st := p.st
	s, ok := args[0].(SliceV)
	if !ok {
		if dst != nil {
			fr.env[dst] = e.opaqueResult(c.Args[0].Type(), "append to opaque")
		}
		return nil
	}
	if _, opq := args[1].(*OpaqueV); opq {
		if dst != nil {
			fr.env[dst] = e.opaqueResult(c.Args[0].Type(), "append of opaque")
		}
		return nil
	}
	n, src, _, _ := e.seqSource(st, args[1], c.Args[1].Type())
	et := c.Args[0].Type().Underlying().(*types.Slice).Elem()
	newLen := BVBin("bvadd", s.Len, n)
	fits := BVCmp("bvule", newLen, s.Cap)
	// nil/zero-length appends of nothing return the slice itself
	mkInPlace := func(q *Path) {
		e.writeRange(q.st, et, s.Arr, BVBin("bvadd", s.Off, s.Len), n, src)
		if dst != nil {
			q.top().env[dst] = SliceV{s.Arr, s.Off, newLen, s.Cap}
		}
	}
	mkRealloc := func(q *Path) {
		r := e.newRef(q.st, "append")
		ncap := Fresh("cap", BV64)
		q.st.Assume(And(BVCmp("bvule", newLen, ncap), BVCmp("bvule", ncap, maxLen)))
		// copy prefix
		_, osrc, _, _ := e.seqSource(q.st, s, c.Args[0].Type())
		e.writeRange(q.st, et, r, BVU(0, 64), s.Len, osrc)
		e.writeRange(q.st, et, r, s.Len, n, src)
		if dst != nil {
			q.top().env[dst] = SliceV{r, BVU(0, 64), newLen, ncap}
		}
	}
	if fits == True {
		mkInPlace(p)
		return nil
	}
	if fits == False {
		mkRealloc(p)
		return nil
	}
	p2 := p.clone()
	p.st.Assume(fits)
	mkInPlace(p)
	p2.st.Assume(Not(fits))
	mkRealloc(p2)
	return []*Path{p2}
}

func (e *Engine) copyBuiltin(p *Path, fr *Frame, c *ssa.CallCommon, args []Value, dst ssa.Value, pos token.Pos) []*Path {
	st := p.st
	d, ok := args[0].(SliceV)
	if !ok {
		if dst != nil {
			fr.env[dst] = e.opaqueResult(types.Typ[types.Int], "copy")
		}
		return nil
	}
	sl, src, _, _ := e.seqSource(st, args[1], c.Args[1].Type())
	et := c.Args[0].Type().Underlying().(*types.Slice).Elem()
	n := Ite(BVCmp("bvult", d.Len, sl), d.Len, sl)
	e.writeRange(st, et, d.Arr, d.Off, n, src)
	if dst != nil {
		fr.env[dst] = n
	}
	return nil
}

func (e *Engine) intrinsic(p *Path, fr *Frame, key string, fn *ssa.Function, args []Value) (Value, bool) {
	st := p.st
	use := func() { e.Intrinsics[key] = true }
	switch key {
	case "math::Float32bits", "math::Float32frombits", "math::Float64bits", "math::Float64frombits":
		use()
		return args[0], true
	case "math::IsNaN":
		use()
		return fpIsNaN(args[0].(*Term)), true
	case "math::IsInf":
		use()
		f := args[0].(*Term)
		sign := args[1].(*Term)
		neg := Eq(Extract(63, 63, f), BVU(1, 1))
		inf := fpIsInf(f)
		pos := BVCmp("bvsgt", sign, BVU(0, 64))
		ng := BVCmp("bvslt", sign, BVU(0, 64))
		return And(inf, Implies(pos, Not(neg)), Implies(ng, neg)), true
	case "math::Inf":
		use()
		sign := args[0].(*Term)
		return Ite(BVCmp("bvsge", sign, BVU(0, 64)), BVU(0x7ff0000000000000, 64), BVU(0xfff0000000000000, 64)), true
	case "math::NaN":
		use()
		return BVU(0x7ff8000000000001, 64), true
	case "math::Abs":
		// exact: clears the sign bit (also of NaNs and infinities)
		use()
		return BVBin("bvand", args[0].(*Term), BVU(0x7fffffffffffffff, 64)), true
	case "math::Trunc":
		// exact: round toward zero to an integral value (NaN stays NaN; the sign of zero is kept)
		use()
		x := args[0].(*Term)
		r := fpToBits(FPOp("fp.roundToIntegral", FP64, RTZ, toFP(x)), 64, st.Assume)
		return Ite(fpIsNaN(x), x, r), true
	case "math/bits::Len64", "math/bits::Len":
		// exact: the number of bits needed to represent x (0 for x == 0)
		use()
		x := args[0].(*Term)
		r := BVU(0, 64)
		for k := 1; k <= 64; k++ {
			r = Ite(BVCmp("bvuge", x, BVConst(bigPow2(k-1), 64)), BVU(uint64(k), 64), r)
		}
		return r, true
	case "math::Signbit":
		use()
		return Eq(Extract(63, 63, args[0].(*Term)), BVU(1, 1)), true
	case "fmt::Errorf", "errors::New":
		use()
		r := Fresh("err", IfaceSrt)
		st.Assume(Ne(r, NilIface))
		st.Assume(Ne(ifaceTag(r), BVU(0, 32)))
		return r, true
	case "fmt::Sprintf", "fmt::Sprint":
		use()
		return e.opaqueString(st, "sprintf"), true
	}
	return nil, false
}

// ---------------------------------------------------------------------------------------------
// ghost event log: calls through a logged interface (iface_log) append (method, arguments) to
// the ghost arrays ev:* at index evLen and may panic afterwards (the whole trusted contract of
// "the next receiver").

func (e *Engine) logIface(t types.Type) string {
	k := types.TypeString(t, func(p *types.Package) string { return p.Name() })
	if e.cs.LogIfaces[k] {
		return k
	}
	return ""
}

func evArrayName(k, j int, s *Sort) string { return fmt.Sprintf("ev:a%d.%d:%s", k, j, s.String()) }

func (s *State) evArray(name string, elem *Sort) *Term {
	if v, ok := s.Ghost[name]; ok {
		return v.(*Term)
	}
	v := Var("G:"+name+s.EpochEv, ArraySort(BV64, elem))
	s.Ghost[name] = v
	return v
}

func (s *State) evLen() *Term {
	if v, ok := s.Ghost["evLen"]; ok {
		return v.(*Term)
	}
	v := Var("G:evLen"+s.EpochEv, BV64)
	s.Ghost["evLen"] = v
	s.Assume(BVCmp("bvult", v, BVU(1<<62, 64))) // A-EVLEN
	return v
}

// methodID: index of the method name in the sorted method set of any logged interface.
func (e *Engine) methodID(name string) (*Term, bool) {
	if id, ok := e.methodIDs[name]; ok {
		return BVU(uint64(id), 16), true
	}
	return nil, false
}

func (e *Engine) registerLogMethods(it *types.Interface) {
	if e.methodIDs == nil {
		e.methodIDs = map[string]int{}
	}
	var names []string
	for i := 0; i < it.NumMethods(); i++ {
		names = append(names, it.Method(i).Name())
	}
	sort.Strings(names)
	for _, n := range names {
		if _, ok := e.methodIDs[n]; !ok {
			e.methodIDs[n] = len(e.methodIDs) + 1
		}
	}
}

func (e *Engine) logEvent(st *State, method string, args []Value) {
	n := st.evLen()
	// A-EVLEN: the ghost event counter does not wrap (fewer than 2^62 receiver calls in one execution)
	st.Assume(BVCmp("bvult", n, BVU(1<<62, 64)))
	id, _ := e.methodID(method)
	ma := st.evArray("ev:method", BV(16))
	st.Ghost["ev:method"] = Store(ma, n, id)
	for k, a := range args {
		if _, opq := a.(*OpaqueV); opq {
			continue
		}
		for j, l := range leaves(a) {
			name := evArrayName(k, j, l.Sort)
			arr := st.evArray(name, l.Sort)
			st.Ghost[name] = Store(arr, n, l)
		}
	}
	st.Ghost["evLen"] = BVBin("bvadd", n, BVU(1, 64))
}

// forwardedTerm: event i of the log is a call of method with exactly these arguments.
func (e *Engine) forwardedTerm(st *State, i *Term, method string, args []Value) (*Term, error) {
	id, ok := e.methodID(method)
	if !ok {
		return nil, fmt.Errorf("forwarded: no logged interface has a method %q", method)
	}
	cs := []*Term{Eq(Select(st.evArray("ev:method", BV(16)), i), id)}
	for k, a := range args {
		for j, l := range leaves(a) {
			cs = append(cs, Eq(Select(st.evArray(evArrayName(k, j, l.Sort), l.Sort), i), l))
		}
	}
	return And(cs...), nil
}

func (e *Engine) logInvoke(p *Path, fr *Frame, lg string, c *ssa.CallCommon, recv Value, args []Value, dst ssa.Value, pos token.Pos) []*Path {
	if it, ok := c.Value.Type().Underlying().(*types.Interface); ok {
		e.registerLogMethods(it)
	}
	e.TrustedUse["iface "+lg+".* (ghost event log: records the call, may panic, touches nothing else)"] = true
	n := p.st.evLen()
	e.logEvent(p.st, c.Method.Name(), args)
	// the receiver the call was made on
	if rt, ok := recv.(*Term); ok {
		ra := p.st.evArray("ev:recv", rt.Sort)
		p.st.Ghost["ev:recv"] = Store(ra, n, rt)
	}
	p2 := p.clone()
	if _, ok := e.cs.Ghosts["evPanic"]; ok {
		p2.st.Ghost["evPanic"] = True // the receiver refused the event
	}
	e.raisePanic(p2)
	rs := c.Method.Type().(*types.Signature).Results()
	if rs.Len() > 0 {
		// results are arbitrary values, recorded in the log so that contracts can say "returns what the delegate returned"
		var res []Value
		for k := 0; k < rs.Len(); k++ {
			v := freshOf("ret:"+c.Method.Name(), rs.At(k).Type(), nil, false)
			p.st.assumeWF(v, rs.At(k).Type())
			res = append(res, v)
			for j, l := range leaves(v) {
				name := fmt.Sprintf("ev:r%d.%d:%s", k, j, l.Sort.String())
				arr := p.st.evArray(name, l.Sort)
				p.st.Ghost[name] = Store(arr, n, l)
			}
		}
		if dst != nil {
			if len(res) == 1 {
				fr.env[dst] = res[0]
			} else {
				fr.env[dst] = &TupleV{E: res}
			}
		}
	}
	return []*Path{p2}
}
func (e *Engine) closedWorld(t types.Type) []*ssa.Function { return nil }
func (e *Engine) dispatchClosed(p *Path, fr *Frame, cw []*ssa.Function, c *ssa.CallCommon, recv Value, args []Value, dst ssa.Value, isDefer bool, pos token.Pos) []*Path {
	return nil
}
// fieldContractFor: a call through a function value loaded from a struct field (x.F(...)) uses the
// contract declared for that field as `//@ iface pkg.Type.Field` (an assumption about every function
// ever stored there, listed as trusted).
func (e *Engine) fieldContractFor(v ssa.Value) *Contract {
	// a value of a named function type (for example a parameter of type builder.BuilderGeneratorGetter):
	// the assumed contract of every function of that type, "iface pkg.TypeName"
	if nt, ok := v.Type().(*types.Named); ok && nt.Obj().Pkg() != nil {
		if _, isSig := nt.Underlying().(*types.Signature); isSig {
			key := nt.Obj().Pkg().Name() + "." + nt.Obj().Name()
			if ct := e.cs.Ifaces[key]; ct != nil {
				ct.Used = true
				e.TrustedUse["function type "+key+" (assumed contract of every function value of this type)"] = true
				return ct
			}
		}
	}
	u, ok := v.(*ssa.UnOp)
	if !ok || u.Op != token.MUL {
		return nil
	}
	fa, ok := u.X.(*ssa.FieldAddr)
	if !ok {
		return nil
	}
	pt, ok := fa.X.Type().Underlying().(*types.Pointer)
	if !ok {
		return nil
	}
	st, ok := pt.Elem().Underlying().(*types.Struct)
	if !ok {
		return nil
	}
	nm, ok := pt.Elem().(*types.Named)
	if !ok || nm.Obj().Pkg() == nil {
		return nil
	}
	key := nm.Obj().Pkg().Name() + "." + nm.Obj().Name() + "." + st.Field(fa.Field).Name()
	ct := e.cs.Ifaces[key]
	if ct != nil {
		ct.Used = true
		e.TrustedUse["field "+key+" (assumed contract of the function values stored in this field)"] = true
	}
	return ct
}

// ---------------------------------------------------------------------------------------------
// verification of one function

// VerifyFunc generates the obligations of the function with the given key against its contract.
func (e *Engine) VerifyFunc(key string) {
	ct := e.cs.Funcs[key]
	fn := e.funcByKey[key]
	name := shortKey(key)
	if ct == nil {
		e.Obls = append(e.Obls, &Obligation{Name: name + "#resolve:contract", Kind: "resolve", Func: name, Failed: "no contract for " + key})
		return
	}
	if fn == nil || len(fn.Blocks) == 0 {
		e.Obls = append(e.Obls, &Obligation{Name: name + "#resolve:target", Kind: "resolve", Func: name,
			Failed: "contract target missing: no function " + key + " in the tree (" + ct.File + ")"})
		return
	}
	e.curFn, e.curCt = fn, ct
	e.paths = 0
	fs := &FuncStat{Name: name, Pos: e.posOf(fn.Pos())}
	e.FuncStats[name] = fs
	defer func() {
		fs.Paths = e.paths
		if r := recover(); r != nil {
			switch x := r.(type) {
			case execErr:
				e.Obls = append(e.Obls, &Obligation{Name: name + "#engine:unsupported", Kind: "resolve", Func: name, Failed: string(x)})
			case evalErr:
				e.Obls = append(e.Obls, &Obligation{Name: name + "#engine:eval", Kind: "resolve", Func: name, Failed: string(x)})
			default:
				panic(r)
			}
		}
	}()
	// stale loop ordinals
	nloops := len(loopsOf(fn))
	for n := range ct.Loops {
		if n >= nloops {
			e.failObl("resolve", fmt.Sprintf("loop%d", n), fmt.Sprintf("contract names loop %d but the function has %d loops", n, nloops))
		}
	}
	st := NewState()
	fr := e.newFrame(fn, nil, nil)
	fr.top = true
	fr.ct = ct
	e.inputVars = nil
	for i, prm := range fn.Params {
		v := freshOf("p:"+prm.Name(), prm.Type(), nil, true)
		st.assumeWF(v, prm.Type())
		e.assumeParam(st, v, prm.Type(), i == 0 && fn.Signature.Recv() != nil)
		fr.env[prm] = v
		for j, l := range leaves(v) {
			e.inputVars = append(e.inputVars, NamedVal{Name: fmt.Sprintf("%s#%d", prm.Name(), j), T: l})
		}
	}
	// a function literal verified on its own: its captured variables are inputs like parameters
	// (captured by reference: a cell holding an arbitrary well-formed value of the variable's type)
	for _, fv := range fn.FreeVars {
		pt, isPtr := fv.Type().Underlying().(*types.Pointer)
		if !isPtr {
			v := freshOf("fv:"+fv.Name(), fv.Type(), nil, true)
			st.assumeWF(v, fv.Type())
			fr.env[fv] = v
			continue
		}
		if isAggregate(pt.Elem()) {
			execFail("captured aggregate variable %s is not supported", fv.Name())
		}
		v := freshOf("fv:"+fv.Name(), pt.Elem(), nil, true)
		st.assumeWF(v, pt.Elem())
		e.assumeParam(st, v, pt.Elem(), fv.Name() == "_this")
		e.nextCell++
		st.Cells[e.nextCell] = v
		fr.env[fv] = &PtrV{Kind: PCell, Cell: e.nextCell}
		for j, l := range leaves(v) {
			e.inputVars = append(e.inputVars, NamedVal{Name: fmt.Sprintf("%s#%d", fv.Name(), j), T: l})
		}
	}
	p := &Path{st: st, stack: []*Frame{fr}}
	entry := st.Clone()
	ctx := e.funcCtx(p, fr, entry)
	fr.lets = map[string]TV{}
	for _, l := range ct.Lets {
		tv, err := ctx.Eval(l.E)
		if err != nil {
			e.failObl("resolve", "let:"+l.Text, err.Error()+" at "+l.Where())
			return
		}
		fr.lets[l.Text] = tv
		ctx.env[l.Text] = tv
	}
	for _, r := range ct.Requires {
		t, err := ctx.EvalBool(r.E)
		if err != nil {
			e.failObl("resolve", "requires", err.Error()+" at "+r.Where())
			return
		}
		st.Assume(t)
	}
	// the entry snapshot must contain lazily created heaps referenced by requires: re-snapshot
	entry = st.Clone()
	e.curEntry = entry
	mctx := e.funcCtx(p, fr, entry)
	mctx.cur = entry
	ms, err := e.buildModSet(mctx, ct.Modifies)
	if err != nil {
		e.failObl("resolve", "modifies", err.Error())
		return
	}
	var fwdTop *fwdResult
	if len(ct.Forwards) > 0 {
		fctx := e.funcCtx(p, fr, entry)
		fctx.cur = entry
		for k, v := range fr.lets {
			fctx.env[k] = v
		}
		fwdTop, err = e.evalForwards(fctx, ct, entry)
		if err != nil {
			e.failObl("resolve", "forwards", err.Error())
			return
		}
		ms.Ev = true
		// the entry snapshot must know the event-log arrays the contract talks about
		for _, k := range fwdTop.names {
			if _, ok := st.Ghost[k]; !ok {
				st.Ghost[k] = fwdTop.pre[k]
			}
		}
		if _, ok := st.Ghost["evLen"]; !ok {
			st.Ghost["evLen"] = fwdTop.preLen
		}
	}
	// ghost code at entry (ghost_set NAME = EXPR): executed after the entry snapshot was taken, so
	// old(NAME) in the postcondition is the value before the call
	for _, g := range ct.GhostSets {
		gctx := e.funcCtx(p, fr, entry)
		gctx.cur = entry
		for k, v := range fr.lets {
			gctx.env[k] = v
		}
		tv, err := gctx.Eval(g.E)
		if err != nil {
			e.failObl("resolve", "ghost_set:"+g.Text, err.Error()+" at "+g.Where())
			return
		}
		gd, ok := e.cs.Ghosts[g.Text]
		if !ok || gd.IsFunc {
			e.failObl("resolve", "ghost_set:"+g.Text, "no ghost variable "+g.Text)
			return
		}
		gt := gctx.resolveType(gd.Type)
		st.ghostVal(g.Text, gt) // make sure the location exists (and is in the entry snapshot below)
		if _, ok := entry.Ghost[g.Text]; !ok {
			entry.Ghost[g.Text] = st.Ghost[g.Text]
		}
		if g.Index != nil {
			ga, isArr := gt.(*GhostArrT)
			if !isArr {
				e.failObl("resolve", "ghost_set:"+g.Text, g.Text+" is not a ghost array")
				return
			}
			iv, err := gctx.Eval(g.Index)
			if err != nil {
				e.failObl("resolve", "ghost_set:"+g.Text, err.Error()+" at "+g.Where())
				return
			}
			// all ghost_set clauses read the entry state: the array is updated on top of what earlier
			// clauses of this contract already stored
			cur := st.Ghost[g.Text].(*Term)
			st.Ghost[g.Text] = Store(cur, gctx.convert(iv, ga.Idx).V.(*Term), gctx.convert(tv, ga.Elem).V.(*Term))
			continue
		}
		st.Ghost[g.Text] = gctx.convert(tv, gt).V
	}
	nExit := 0
	e.runPaths(p, func(p *Path, normal bool, res []Value) {
		nExit++
		if fwdTop != nil {
			kind, detail := "post", "forwards"
			if !normal {
				kind = "xpost"
			}
			if normal || !ct.MayPanic || true {
				e.obligeKeep(p, kind, detail, fn.Pos(), fwdTop.check(p.st, !normal), "forwards: exactly the stated call is appended to the event log (on panic: nothing or exactly that call)")
			}
		}
		c := e.funcCtx(p, fr0(p, fr), entry)
		// parameters are immutable SSA values: bind from the original frame
		for _, prm := range fn.Params {
			c.env[prm.Name()] = TV{V: fr.env[prm], T: prm.Type()}
		}
		for k, v := range fr.lets {
			c.env[k] = v
		}
		exitPos := fn.Pos()
		if normal && ct.NoReturn {
			// noreturn: every normal exit must be unreachable
			e.obligeKeep(p, "post", "noreturn", exitPos, False, "noreturn: the function must not return normally")
			return
		}
		if normal {
			bindResults(c.env, fn.Signature, res)
			// cover
			e.Obls = append(e.Obls, &Obligation{Name: fmt.Sprintf("%s#cover:exit%d", name, nExit), Kind: "cover", Func: name, Cover: true,
				Assume: append([]*Term(nil), p.st.PC...), Goal: False})
			for i, en := range ct.Ensures {
				t, err := c.EvalBool(en.E)
				if err != nil {
					e.failObl("resolve", fmt.Sprintf("ensures%d", i), err.Error()+" at "+en.Where())
					continue
				}
				e.obligeKeep(p, "post", fmt.Sprintf("ensures%d", i), exitPos, t, en.Text)
			}
			for i, pc := range ct.Panics {
				oc := *c
				oc.cur = entry
				t, err := oc.EvalBool(pc.E)
				if err != nil {
					e.failObl("resolve", fmt.Sprintf("panics%d", i), err.Error()+" at "+pc.Where())
					continue
				}
				e.obligeKeep(p, "post", fmt.Sprintf("returns-implies-not-panics%d", i), exitPos, Not(t), pc.Text)
			}
			e.checkFrame(p, ms, entry, "return", exitPos)
		} else {
			// per-iteration exceptional contracts of the loops the path was inside when it panicked
			for _, ord := range sortedLoopOrds(ct.Loops) {
				ls := ct.Loops[ord]
				snap := p.topIter[ord]
				if len(ls.XSteps) == 0 || snap == nil {
					continue
				}
				xc := *c
				xc.old = snap
				for i, x := range ls.XSteps {
					t, err := xc.EvalBool(x.E)
					if err != nil {
						e.failObl("resolve", fmt.Sprintf("loop%d-xstep%d", ord, i), err.Error()+" at "+x.Where())
						continue
					}
					e.obligeKeep(p, "xstep", fmt.Sprintf("loop%d.%d", ord, i), exitPos, t, x.Text)
				}
			}
			if ct.MayPanic {
				e.checkFrame(p, ms, entry, "panic", exitPos)
				return
			}
			if ct.NoReturn {
				e.checkFrame(p, ms, entry, "panic", exitPos)
				return
			}
			if len(ct.XEnsures) == 0 && len(ct.Panics) == 0 {
				e.obligeKeep(p, "xpost", "must-not-panic", exitPos, False, "(no panics/xensures clause: the function must not panic)")
				return
			}
			for i, x := range ct.XEnsures {
				t, err := c.EvalBool(x.E)
				if err != nil {
					e.failObl("resolve", fmt.Sprintf("xensures%d", i), err.Error()+" at "+x.Where())
					continue
				}
				e.obligeKeep(p, "xpost", fmt.Sprintf("xensures%d", i), exitPos, t, x.Text)
			}
			if len(ct.Panics) > 0 {
				var cs []*Term
				for i, pc := range ct.Panics {
					oc := *c
					oc.cur = entry
					t, err := oc.EvalBool(pc.E)
					if err != nil {
						e.failObl("resolve", fmt.Sprintf("panics%d", i), err.Error()+" at "+pc.Where())
						continue
					}
					cs = append(cs, t)
				}
				e.obligeKeep(p, "xpost", "panics-only-if", exitPos, Or(cs...), "panics")
			}
			e.checkFrame(p, ms, entry, "panic", exitPos)
		}
	})
	if nExit == 0 {
		e.failObl("cover", "no-exit", "no path reaches an exit of the function (contradictory requires or unsupported code)")
	}
}

func fr0(p *Path, fr *Frame) *Frame { return fr }

func sortedLoopOrds(m map[int]*LoopSpec) []int {
	var ks []int
	for k := range m {
		ks = append(ks, k)
	}
	sort.Ints(ks)
	return ks
}

// obligeKeep is oblige without assuming the goal afterwards (exit obligations are independent).
func (e *Engine) obligeKeep(p *Path, kind, detail string, pos token.Pos, goal *Term, clause string) {
	if goal == True {
		// still count it as discharged syntactically
		e.Obls = append(e.Obls, &Obligation{Name: e.oblName(kind, detail), Kind: kind, Func: shortFuncName(e.curFn), Detail: detail,
			Where: e.posOf(pos), Goal: True, Clause: clause})
		return
	}
	o := &Obligation{Name: e.oblName(kind, detail), Kind: kind, Func: shortFuncName(e.curFn), Detail: detail, Where: e.posOf(pos),
		Assume: append([]*Term(nil), p.st.PC...), Goal: goal, Clause: clause, Vars: e.inputVars}
	e.Obls = append(e.Obls, o)
}

func (e *Engine) assumeParam(st *State, v Value, t types.Type, isRecv bool) {
	switch x := v.(type) {
	case *Term:
		if _, ok := t.Underlying().(*types.Pointer); ok {
			if isRecv {
				st.Assume(Ne(x, BVU(0, 64)))
				st.Assume(Select(st.Alloc, x))
			} else {
				st.Assume(Or(Eq(x, BVU(0, 64)), Select(st.Alloc, x)))
			}
		}
	case SliceV:
		st.Assume(Select(st.Alloc, x.Arr))
		st.Assume(BVCmp("bvule", x.Cap, maxData))
	case StringV:
		st.Assume(BVCmp("bvule", x.Len, maxData))
	}
}

// A-SIZE: data handed to a function is at most 2^36 elements long; any slice is at most 2^40.
var maxData = BVU(1<<36, 64)
