package vc

// contract.go: parser for //@ contract blocks (comment-only files).

import (
	"fmt"
	"os"
	"regexp"
	"strconv"
	"strings"
)

type Clause struct {
	Kind string
	Text string
	E    Expr
	Es   []Expr // for modifies lists
	Index Expr  // ghost_set of one array element: the index
	File string
	Line int
}

func (c *Clause) Where() string { return fmt.Sprintf("%s:%d", c.File, c.Line) }

type LoopSpec struct {
	Invariants []*Clause
	Modifies   []*Clause
	Unroll     int
	Decreases  *Clause
	Steps      []*Clause // per-iteration two-state contracts (old = start of the iteration)
	XSteps     []*Clause // must hold when the function panics during an iteration
}

type Contract struct {
	Kind          string // func | iface | extern
	Target        string
	Pkg           string // package path the contract file belongs to ("" for trusted files => resolved by Target)
	Requires      []*Clause
	Ensures       []*Clause
	XEnsures      []*Clause
	Panics        []*Clause
	Cases         []*Clause // call sites fork on these conditions (keeps callee-dependent offsets concrete)
	Forwards      []*ForwardCase
	Modifies      []*Clause
	Lets          []*Clause // Text = name, E = expr
	GhostSets     []*Clause // Text = ghost variable, E = value assigned at function entry
	MayPanic      bool
	Inline        bool
	Trusted       bool
	NoReturn      bool // always panics
	Pure          bool
	Havoc         bool // uncontracted callees are treated as may-panic + havoc everything (C07 style)
	RuntimePanics bool // run-time panics of the body are exceptional exits, not violations
	Loops         map[int]*LoopSpec
	File          string
	Line          int
	Used          bool
	Renamed       map[string]string // names of the contract bound by elimination to renamed parameters / loop variables
}

type GhostDecl struct {
	Name   string
	Type   string
	IsFunc bool
	Params []QVar
	Res    string
	File   string
	Line   int
}

type SpecFn struct {
	Name   string
	Params []QVar
	Res    string
	Body   Expr
	Text   string
	Pkg    string
	File   string
	Line   int
}

type Lemma struct {
	Name string
	Body *Clause
	Pkg  string
}

type ContractSet struct {
	Funcs     map[string]*Contract // key: pkgpath + "::" + target, e.g. ".../cbe::(*Writer).WriteType"
	Ifaces    map[string]*Contract // key: "io.Writer.Write"
	Ghosts    map[string]*GhostDecl
	Specs     map[string]*SpecFn
	Lemmas    map[string]*Lemma
	ConstGl   map[string]bool // pkgpath::name of globals treated as constant after init
	macros    map[string]*macroDef
	LogIfaces map[string]bool     // "events.DataEventReceiver": calls are recorded in the ghost event log
	Closed    map[string][]string // "rules.EventRule" -> names of the package-level singletons implementing it
	Files     []string
	Errors    []string
	// checks over the SSA of whole packages (no recover; a call only from listed functions)
	Structural []*StructuralCheck
}

type StructuralCheck struct {
	Name string
	Text string
	File string
	Line int
}

func NewContractSet() *ContractSet {
	return &ContractSet{Funcs: map[string]*Contract{}, Ifaces: map[string]*Contract{}, Ghosts: map[string]*GhostDecl{},
		Specs: map[string]*SpecFn{}, Lemmas: map[string]*Lemma{}, ConstGl: map[string]bool{}, macros: map[string]*macroDef{},
		LogIfaces: map[string]bool{}, Closed: map[string][]string{}}
}

var ctPrefix = regexp.MustCompile(`^\s*//\s?@ ?(.*)$`)

var clauseKeywords = map[string]bool{"requires": true, "ensures": true, "xensures": true, "panics": true, "may_panic": true,
	"modifies": true, "inline": true, "trusted": true, "loop": true, "let": true, "noreturn": true, "pure": true, "havoc_callees": true, "runtime_panics": true, "use": true, "cases": true, "forwards": true, "ghost_set": true}
var topKeywords = map[string]bool{"func": true, "iface": true, "extern": true, "ghost": true, "spec": true, "lemma": true, "const_global": true, "macro": true, "iface_log": true, "closed_world": true, "structural": true}

// ParseContractFile parses one file. pkgPath is the import path the file belongs to (used to
// resolve unqualified identifiers); for files outside /repo pass "".
func (cs *ContractSet) ParseContractFile(path, pkgPath string) error {
	data, err := os.ReadFile(path)
	if err != nil {
		return err
	}
	cs.Files = append(cs.Files, path)
	return cs.ParseContractText(string(data), path, pkgPath)
}

type rawLine struct {
	text string
	line int
}

func (cs *ContractSet) ParseContractText(data, path, pkgPath string) error {
	var lines []rawLine
	for i, l := range strings.Split(data, "\n") {
		m := ctPrefix.FindStringSubmatch(l)
		if m == nil {
			continue
		}
		t := m[1]
		// strip trailing comment introduced by " // "
		if k := strings.Index(t, " // "); k >= 0 {
			t = t[:k]
		}
		if strings.TrimSpace(t) == "" {
			continue
		}
		lines = append(lines, rawLine{t, i + 1})
	}
	// group into statements: a statement starts with a keyword; other lines continue it
	type stmt struct {
		kw   string
		rest string
		line int
	}
	var stmts []stmt
	for _, rl := range lines {
		t := strings.TrimSpace(rl.text)
		w := t
		if k := strings.IndexAny(t, " \t"); k >= 0 {
			w = t[:k]
		}
		if clauseKeywords[w] || topKeywords[w] {
			stmts = append(stmts, stmt{w, strings.TrimSpace(t[len(w):]), rl.line})
		} else if len(stmts) > 0 {
			stmts[len(stmts)-1].rest += " " + t
		} else {
			return fmt.Errorf("%s:%d: text before any keyword", path, rl.line)
		}
	}
	var cur *Contract
	fail := func(line int, f string, a ...interface{}) error {
		return fmt.Errorf("%s:%d: %s", path, line, fmt.Sprintf(f, a...))
	}
	mkClause := func(kind, text string, line int) (*Clause, error) {
		e, err := ParseSpec(text)
		if err != nil {
			return nil, fail(line, "%v", err)
		}
		return &Clause{Kind: kind, Text: text, E: e, File: path, Line: line}, nil
	}
	mkList := func(kind, text string, line int) (*Clause, error) {
		e, err := ParseSpec("f(" + text + ")")
		if err != nil {
			return nil, fail(line, "%v", err)
		}
		return &Clause{Kind: kind, Text: text, Es: e.(*CallE).Args, File: path, Line: line}, nil
	}
	var curMacro *macroDef
	var handle func(s stmt) error
	handle = func(s stmt) error {
		if curMacro != nil && clauseKeywords[s.kw] {
			curMacro.stmts = append(curMacro.stmts, [2]string{s.kw, s.rest})
			return nil
		}
		if topKeywords[s.kw] {
			curMacro = nil
		}
		switch s.kw {
		case "macro":
			op := strings.Index(s.rest, "(")
			cp := strings.LastIndex(s.rest, ")")
			if op < 0 || cp < op {
				return fail(s.line, "macro NAME(params)")
			}
			m := &macroDef{name: strings.TrimSpace(s.rest[:op])}
			for _, p := range strings.Split(s.rest[op+1:cp], ",") {
				if p = strings.TrimSpace(p); p != "" {
					m.params = append(m.params, p)
				}
			}
			cs.macros[m.name] = m
			curMacro = m
			cur = nil
		case "use":
			if cur == nil {
				return fail(s.line, "use outside a contract")
			}
			op := strings.Index(s.rest, "(")
			cp := strings.LastIndex(s.rest, ")")
			if op < 0 || cp < op {
				return fail(s.line, "use NAME(args)")
			}
			m := cs.macros[strings.TrimSpace(s.rest[:op])]
			if m == nil {
				return fail(s.line, "unknown macro %q", s.rest[:op])
			}
			args := splitTopLevel(s.rest[op+1 : cp])
			if len(args) != len(m.params) {
				return fail(s.line, "macro %s takes %d arguments", m.name, len(m.params))
			}
			for _, ms := range m.stmts {
				text := ms[1]
				for i, p := range m.params {
					re := regexp.MustCompile(`\b` + regexp.QuoteMeta(p) + `\b`)
					text = re.ReplaceAllLiteralString(text, "("+strings.TrimSpace(args[i])+")")
				}
				if err := handle(stmt{ms[0], text, s.line}); err != nil {
					return err
				}
			}
		case "func", "iface", "extern":
			cur = &Contract{Kind: s.kw, Target: strings.TrimSpace(s.rest), Pkg: pkgPath, Loops: map[int]*LoopSpec{}, File: path, Line: s.line}
			switch s.kw {
			case "func":
				key := pkgPath + "::" + cur.Target
				if strings.Contains(cur.Target, "::") {
					key = cur.Target
					cur.Pkg = strings.SplitN(cur.Target, "::", 2)[0]
				}
				if _, dup := cs.Funcs[key]; dup {
					return fail(s.line, "duplicate contract for %s", key)
				}
				cs.Funcs[key] = cur
			case "extern":
				// Target is fully qualified: pkgpath::(*T).M or pkgpath::F
				cur.Trusted = true
				if strings.Contains(cur.Target, "::") {
					cur.Pkg = strings.SplitN(cur.Target, "::", 2)[0]
				}
				if _, dup := cs.Funcs[cur.Target]; dup {
					return fail(s.line, "duplicate contract for %s", cur.Target)
				}
				cs.Funcs[cur.Target] = cur
			case "iface":
				cur.Trusted = true
				cs.Ifaces[cur.Target] = cur
			}
		case "ghost":
			cur = nil
			g := &GhostDecl{File: path, Line: s.line}
			rest := s.rest
			if strings.HasPrefix(rest, "func ") {
				g.IsFunc = true
				rest = strings.TrimSpace(rest[5:])
				op := strings.Index(rest, "(")
				cp := strings.LastIndex(rest, ")")
				if op < 0 || cp < op {
					return fail(s.line, "bad ghost func")
				}
				g.Name = strings.TrimSpace(rest[:op])
				ps, err := parseParams(rest[op+1 : cp])
				if err != nil {
					return fail(s.line, "%v", err)
				}
				g.Params = ps
				g.Res = strings.TrimSpace(rest[cp+1:])
			} else {
				f := strings.Fields(rest)
				if len(f) != 2 {
					return fail(s.line, "ghost NAME TYPE expected")
				}
				g.Name, g.Type = f[0], f[1]
			}
			cs.Ghosts[g.Name] = g
		case "spec":
			cur = nil
			// spec NAME(params) RES = body
			eq := strings.Index(s.rest, "=")
			// find the '=' that is not part of '==' etc: first " = "
			if k := strings.Index(s.rest, " = "); k >= 0 {
				eq = k + 1
			}
			if eq < 0 {
				return fail(s.line, "spec needs '='")
			}
			head := strings.TrimSpace(s.rest[:eq])
			body := strings.TrimSpace(s.rest[eq+1:])
			op := strings.Index(head, "(")
			cp := strings.LastIndex(head, ")")
			if op < 0 || cp < op {
				return fail(s.line, "bad spec head %q", head)
			}
			sf := &SpecFn{Name: strings.TrimSpace(head[:op]), Res: strings.TrimSpace(head[cp+1:]), Text: body, Pkg: pkgPath, File: path, Line: s.line}
			ps, err := parseParams(head[op+1 : cp])
			if err != nil {
				return fail(s.line, "%v", err)
			}
			sf.Params = ps
			e, err := ParseSpec(body)
			if err != nil {
				return fail(s.line, "%v", err)
			}
			sf.Body = e
			if _, dup := cs.Specs[sf.Name]; dup {
				return fail(s.line, "duplicate spec %s", sf.Name)
			}
			cs.Specs[sf.Name] = sf
		case "lemma":
			cur = nil
			f := strings.SplitN(s.rest, " ", 2)
			if len(f) != 2 {
				return fail(s.line, "lemma NAME body")
			}
			c, err := mkClause("lemma", f[1], s.line)
			if err != nil {
				return err
			}
			cs.Lemmas[f[0]] = &Lemma{Name: f[0], Body: c, Pkg: pkgPath}
		case "const_global":
			cur = nil
			for _, n := range strings.Fields(strings.ReplaceAll(s.rest, ",", " ")) {
				if strings.Contains(n, "::") {
					cs.ConstGl[n] = true
				} else {
					cs.ConstGl[pkgPath+"::"+n] = true
				}
			}
		case "iface_log":
			cur = nil
			for _, n := range strings.Fields(strings.ReplaceAll(s.rest, ",", " ")) {
				cs.LogIfaces[n] = true
			}
		case "structural":
			// structural NAME: no_recover PKG [except PREFIX...]
			// structural NAME: only_callers IFACE.METHOD in PKG: FUNC...
			cur = nil
			k := strings.Index(s.rest, ":")
			if k < 0 {
				return fail(s.line, "structural NAME: check ...")
			}
			cs.Structural = append(cs.Structural, &StructuralCheck{Name: strings.TrimSpace(s.rest[:k]), Text: strings.TrimSpace(s.rest[k+1:]), File: path, Line: s.line})
		case "closed_world":
			cur = nil
			f := strings.Fields(s.rest)
			if len(f) < 2 {
				return fail(s.line, "closed_world IFACE impl...")
			}
			cs.Closed[f[0]] = append(cs.Closed[f[0]], f[1:]...)
		default:
			if cur == nil {
				return fail(s.line, "clause %q outside a contract", s.kw)
			}
			switch s.kw {
			case "requires", "ensures", "xensures", "panics", "cases":
				c, err := mkClause(s.kw, s.rest, s.line)
				if err != nil {
					return err
				}
				switch s.kw {
				case "requires":
					cur.Requires = append(cur.Requires, c)
				case "ensures":
					cur.Ensures = append(cur.Ensures, c)
				case "xensures":
					cur.XEnsures = append(cur.XEnsures, c)
				case "panics":
					cur.Panics = append(cur.Panics, c)
				case "cases":
					cur.Cases = append(cur.Cases, c)
				}
			case "forwards":
				// forwards [COND :] Method(args): on normal return exactly this call was appended to the event log
				rest := s.rest
				var cond *Clause
				if k := topLevelColon(rest); k >= 0 {
					c, err := mkClause("forwards-cond", strings.TrimSpace(rest[:k]), s.line)
					if err != nil {
						return err
					}
					cond = c
					rest = strings.TrimSpace(rest[k+1:])
				}
				call, err := mkClause("forwards", rest, s.line)
				if err != nil {
					return err
				}
				ce, ok := call.E.(*CallE)
				if !ok {
					return fail(s.line, "forwards needs Method(args)")
				}
				id, ok := ce.Fun.(*Ident)
				if !ok {
					return fail(s.line, "forwards needs Method(args)")
				}
				cur.Forwards = append(cur.Forwards, &ForwardCase{Cond: cond, Method: id.Name, Args: ce.Args, Clause: call})
			case "modifies":
				c, err := mkList(s.kw, s.rest, s.line)
				if err != nil {
					return err
				}
				cur.Modifies = append(cur.Modifies, c)
			case "let":
				k := strings.Index(s.rest, "=")
				if k < 0 {
					return fail(s.line, "let NAME = expr")
				}
				c, err := mkClause("let", strings.TrimSpace(s.rest[k+1:]), s.line)
				if err != nil {
					return err
				}
				c.Text = strings.TrimSpace(s.rest[:k])
				cur.Lets = append(cur.Lets, c)
			case "ghost_set":
				// ghost_set NAME = EXPR: ghost code at the entry of the function: the ghost variable NAME is
				// assigned the value EXPR has on entry. Verifying the body starts from that assignment; a caller
				// sees NAME among the modified locations and NAME == old(EXPR) after a normal return.
				k := strings.Index(s.rest, "=")
				if k < 0 {
					return fail(s.line, "ghost_set NAME = expr")
				}
				gname, gexpr := strings.TrimSpace(s.rest[:k]), strings.TrimSpace(s.rest[k+1:])
				c, err := mkClause("ghost_set", gexpr, s.line)
				if err != nil {
					return err
				}
				c.Text = gname
				cur.GhostSets = append(cur.GhostSets, c)
				gbase, gidx := gname, ""
				if b := strings.Index(gname, "["); b >= 0 && strings.HasSuffix(gname, "]") {
					// one element of a ghost array: NAME[INDEX] = EXPR (INDEX is evaluated on entry as well)
					gbase, gidx = strings.TrimSpace(gname[:b]), strings.TrimSpace(gname[b+1:len(gname)-1])
					ix, err := mkClause("ghost_set-index", gidx, s.line)
					if err != nil {
						return err
					}
					c.Text = gbase
					c.Index = ix.E
				}
				m, err := mkList("modifies", gbase, s.line)
				if err != nil {
					return err
				}
				cur.Modifies = append(cur.Modifies, m)
				post := gname + " == old(" + gexpr + ")"
				if gidx != "" {
					post = gbase + "[old(" + gidx + ")] == old(" + gexpr + ")"
				}
				en, err := mkClause("ensures", post, s.line)
				if err != nil {
					return err
				}
				cur.Ensures = append(cur.Ensures, en)
				if gidx != "" {
					fr, err := mkClause("ensures", "forall ghostIdx uint64 :: ghostIdx != old("+gidx+") ==> "+gbase+"[ghostIdx] == old("+gbase+"[ghostIdx])", s.line)
					if err != nil {
						return err
					}
					cur.Ensures = append(cur.Ensures, fr)
				}
			case "may_panic":
				cur.MayPanic = true
			case "inline":
				cur.Inline = true
			case "trusted":
				cur.Trusted = true
			case "noreturn":
				cur.NoReturn = true
			case "pure":
				cur.Pure = true
			case "havoc_callees":
				cur.Havoc = true
			case "runtime_panics":
				// run-time panics (index, nil, makeslice, …) in this body are exceptional exits that
				// must satisfy the exceptional postcondition, not violations
				cur.RuntimePanics = true
			case "loop":
				f := strings.SplitN(s.rest, " ", 3)
				if len(f) < 3 {
					return fail(s.line, "loop N kind ...")
				}
				n, err := strconv.Atoi(f[0])
				if err != nil {
					return fail(s.line, "loop ordinal: %v", err)
				}
				ls := cur.Loops[n]
				if ls == nil {
					ls = &LoopSpec{}
					cur.Loops[n] = ls
				}
				switch f[1] {
				case "invariant":
					c, err := mkClause("invariant", f[2], s.line)
					if err != nil {
						return err
					}
					ls.Invariants = append(ls.Invariants, c)
				case "modifies":
					c, err := mkList("modifies", f[2], s.line)
					if err != nil {
						return err
					}
					ls.Modifies = append(ls.Modifies, c)
				case "unroll":
					k, err := strconv.Atoi(strings.TrimSpace(f[2]))
					if err != nil {
						return fail(s.line, "unroll: %v", err)
					}
					ls.Unroll = k
				case "decreases":
					c, err := mkClause("decreases", f[2], s.line)
					if err != nil {
						return err
					}
					ls.Decreases = c
				case "step":
					// two-state per-iteration contract: old() is the state at the start of the iteration
					c, err := mkClause("step", f[2], s.line)
					if err != nil {
						return err
					}
					ls.Steps = append(ls.Steps, c)
				case "xstep":
					// holds whenever the function panics during an iteration (old = start of that iteration)
					c, err := mkClause("xstep", f[2], s.line)
					if err != nil {
						return err
					}
					ls.XSteps = append(ls.XSteps, c)
				default:
					return fail(s.line, "unknown loop clause %q", f[1])
				}
			}
		}
		return nil
	}
	for _, s := range stmts {
		if err := handle(s); err != nil {
			return err
		}
	}
	return nil
}

// ForwardCase: under Cond (nil = always) the function forwards exactly one call Method(Args) to
// the logged next receiver.
type ForwardCase struct {
	Cond   *Clause
	Method string
	Args   []Expr
	Clause *Clause
}

// topLevelColon finds " : " outside parentheses and brackets.
func topLevelColon(s string) int {
	depth := 0
	for i := 0; i < len(s); i++ {
		switch s[i] {
		case '(', '[':
			depth++
		case ')', ']':
			depth--
		case ':':
			if depth == 0 && i > 0 && s[i-1] == ' ' && i+1 < len(s) && s[i+1] == ' ' {
				return i
			}
		}
	}
	return -1
}

type macroDef struct {
	name   string
	params []string
	stmts  [][2]string
}

// splitTopLevel splits s at commas that are not nested in parentheses/brackets.
func splitTopLevel(s string) []string {
	var out []string
	depth, start := 0, 0
	for i, r := range s {
		switch r {
		case '(', '[':
			depth++
		case ')', ']':
			depth--
		case ',':
			if depth == 0 {
				out = append(out, s[start:i])
				start = i + 1
			}
		}
	}
	if strings.TrimSpace(s[start:]) != "" || len(out) > 0 {
		out = append(out, s[start:])
	}
	return out
}

func parseParams(s string) ([]QVar, error) {
	var out []QVar
	s = strings.TrimSpace(s)
	if s == "" {
		return nil, nil
	}
	for _, p := range strings.Split(s, ",") {
		f := strings.Fields(p)
		if len(f) != 2 {
			return nil, fmt.Errorf("bad parameter %q", p)
		}
		out = append(out, QVar{f[0], f[1]})
	}
	return out, nil
}
