package vc

// value.go: symbolic Go values, the heap/memory model and the path state.

import (
	"fmt"
	"go/types"
	"regexp"
	"sort"
	"strings"

	"golang.org/x/tools/go/ssa"
)

// Value is one of: *Term (scalar/ref/iface), SliceV, StringV, *StructV, *TupleV, *PtrV, *FuncV, *ArrayV, *OpaqueV.
type Value interface{}

type SliceV struct{ Arr, Off, Len, Cap *Term }
type StringV struct{ Chars, Off, Len *Term }
type StructV struct{ F []Value }
type TupleV struct{ E []Value }
type ArrayV struct{ M Value } // lifted: every leaf is (Array BV64 leaf)
type OpaqueV struct{ Why string }
type FuncV struct {
	Fn   *ssa.Function
	Bind []Value
}

type PtrKind int

const (
	PCell PtrKind = iota
	PField
	PElem
	PGlobal
)

// PtrV is a Go-level tracked location (never stored in the symbolic heap).
type PtrV struct {
	Kind PtrKind
	Cell int
	Ref  *Term // PField: object
	Key  string
	FT   types.Type // PField: field type; PElem: element type
	Arr  *Term      // PElem
	Idx  *Term
	Path []int // PElem: field path inside the element
	Glob *ssa.Global
}

// mapLeaves applies f to every leaf term of v.
func mapLeaves(v Value, f func(*Term) *Term) Value {
	switch v := v.(type) {
	case *Term:
		return f(v)
	case SliceV:
		return SliceV{f(v.Arr), f(v.Off), f(v.Len), f(v.Cap)}
	case StringV:
		return StringV{f(v.Chars), f(v.Off), f(v.Len)}
	case *StructV:
		o := &StructV{F: make([]Value, len(v.F))}
		for i, x := range v.F {
			o.F[i] = mapLeaves(x, f)
		}
		return o
	case *TupleV:
		o := &TupleV{E: make([]Value, len(v.E))}
		for i, x := range v.E {
			o.E[i] = mapLeaves(x, f)
		}
		return o
	case *ArrayV:
		return &ArrayV{M: mapLeaves(v.M, f)}
	case *OpaqueV:
		return v
	case nil:
		return nil
	}
	panic(fmt.Sprintf("mapLeaves: unsupported value %T", v))
}

func zipLeaves(a, b Value, f func(x, y *Term) *Term) Value {
	switch a := a.(type) {
	case *Term:
		bt, ok := b.(*Term)
		if !ok {
			panic(fmt.Sprintf("zipLeaves: shape mismatch %T vs %T", a, b))
		}
		return f(a, bt)
	case SliceV:
		b := b.(SliceV)
		return SliceV{f(a.Arr, b.Arr), f(a.Off, b.Off), f(a.Len, b.Len), f(a.Cap, b.Cap)}
	case StringV:
		b := b.(StringV)
		return StringV{f(a.Chars, b.Chars), f(a.Off, b.Off), f(a.Len, b.Len)}
	case *StructV:
		b := b.(*StructV)
		o := &StructV{F: make([]Value, len(a.F))}
		for i := range a.F {
			o.F[i] = zipLeaves(a.F[i], b.F[i], f)
		}
		return o
	case *TupleV:
		b := b.(*TupleV)
		o := &TupleV{E: make([]Value, len(a.E))}
		for i := range a.E {
			o.E[i] = zipLeaves(a.E[i], b.E[i], f)
		}
		return o
	case *ArrayV:
		return &ArrayV{M: zipLeaves(a.M, b.(*ArrayV).M, f)}
	case *OpaqueV:
		return a
	}
	panic(fmt.Sprintf("zipLeaves: unsupported value %T", a))
}

func leaves(v Value) []*Term {
	var out []*Term
	mapLeaves(v, func(t *Term) *Term { out = append(out, t); return t })
	return out
}

// valueEq: conjunction of leaf equalities.
func valueEq(a, b Value) *Term {
	var cs []*Term
	zipLeaves(a, b, func(x, y *Term) *Term { cs = append(cs, Eq(x, y)); return x })
	return And(cs...)
}

func valueIte(c *Term, a, b Value) Value {
	return zipLeaves(a, b, func(x, y *Term) *Term { return Ite(c, x, y) })
}

// ---------------------------------------------------------------------------------------------
// Types

type TypeInfo struct {
	sizes types.Sizes
}

func isNamedStructOrArrayPtr(t types.Type) bool {
	p, ok := t.Underlying().(*types.Pointer)
	if !ok {
		return false
	}
	switch p.Elem().Underlying().(type) {
	case *types.Struct, *types.Array:
		return true
	}
	return false
}

func basicWidth(b *types.Basic) (w int, signed bool, ok bool) {
	switch b.Kind() {
	case types.Int8:
		return 8, true, true
	case types.Int16:
		return 16, true, true
	case types.Int32, types.UntypedRune:
		return 32, true, true
	case types.Int64, types.Int, types.UntypedInt:
		return 64, true, true
	case types.Uint8:
		return 8, false, true
	case types.Uint16:
		return 16, false, true
	case types.Uint32:
		return 32, false, true
	case types.Uint64, types.Uint, types.Uintptr:
		return 64, false, true
	case types.Float32:
		return 32, true, true
	case types.Float64, types.UntypedFloat:
		return 64, true, true
	}
	return 0, false, false
}

func isFloat(t types.Type) bool {
	b, ok := t.Underlying().(*types.Basic)
	return ok && b.Info()&types.IsFloat != 0
}
func isSigned(t types.Type) bool {
	b, ok := t.Underlying().(*types.Basic)
	if !ok {
		return false
	}
	_, s, _ := basicWidth(b)
	return s && b.Info()&types.IsInteger != 0
}
func isInteger(t types.Type) bool {
	b, ok := t.Underlying().(*types.Basic)
	return ok && b.Info()&types.IsInteger != 0
}
func isBoolean(t types.Type) bool {
	b, ok := t.Underlying().(*types.Basic)
	return ok && b.Info()&types.IsBoolean != 0
}
func isString(t types.Type) bool {
	b, ok := t.Underlying().(*types.Basic)
	return ok && b.Info()&types.IsString != 0
}
func intWidth(t types.Type) int {
	b, ok := t.Underlying().(*types.Basic)
	if !ok {
		return 0
	}
	w, _, _ := basicWidth(b)
	return w
}

// scalarSort returns the SMT sort of a non-composite Go type, or nil.
func scalarSort(t types.Type) *Sort {
	switch u := t.Underlying().(type) {
	case *types.Basic:
		if u.Info()&types.IsBoolean != 0 {
			return BoolSort
		}
		if w, _, ok := basicWidth(u); ok {
			return BV(w)
		}
		if u.Kind() == types.UnsafePointer {
			return RefSort
		}
		return nil
	case *types.Pointer, *types.Map, *types.Chan, *types.Signature:
		return RefSort
	case *types.Interface:
		return IfaceSrt
	}
	return nil
}

// typeKey: stable textual key of a type (used for heaps and memories).
func typeKey(t types.Type) string {
	s := types.TypeString(t, func(p *types.Package) string { return p.Path() })
	if strings.Contains(s, "byte") || strings.Contains(s, "rune") {
		s = aliasRe.ReplaceAllStringFunc(s, func(m string) string {
			if m == "byte" {
				return "uint8"
			}
			return "int32"
		})
	}
	return s
}

var aliasRe = regexp.MustCompile(`\b(byte|rune)\b`)

// freshOf creates a fresh symbolic value of type t; lift maps each leaf sort (identity for plain values).
func freshOf(hint string, t types.Type, lift func(*Sort) *Sort, stable bool) Value {
	mk := func(suffix string, s *Sort) *Term {
		if lift != nil {
			s = lift(s)
		}
		if stable {
			return Var(hint+suffix, s)
		}
		return Fresh(hint+suffix, s)
	}
	return buildShape(t, mk, "")
}

func buildShape(t types.Type, mk func(suffix string, s *Sort) *Term, suffix string) Value {
	if s := scalarSort(t); s != nil {
		return mk(suffix, s)
	}
	switch u := t.Underlying().(type) {
	case *types.Basic:
		if u.Info()&types.IsString != 0 {
			return StringV{mk(suffix+".chars", ByteArr), mk(suffix+".off", BV64), mk(suffix+".len", BV64)}
		}
		if u.Kind() == types.UntypedNil {
			return mk(suffix, RefSort)
		}
	case *types.Slice:
		return SliceV{mk(suffix+".arr", RefSort), mk(suffix+".off", BV64), mk(suffix+".len", BV64), mk(suffix+".cap", BV64)}
	case *types.Struct:
		o := &StructV{F: make([]Value, u.NumFields())}
		for i := 0; i < u.NumFields(); i++ {
			o.F[i] = buildShape(u.Field(i).Type(), mk, suffix+"."+u.Field(i).Name())
		}
		return o
	case *types.Tuple:
		o := &TupleV{E: make([]Value, u.Len())}
		for i := 0; i < u.Len(); i++ {
			o.E[i] = buildShape(u.At(i).Type(), mk, fmt.Sprintf("%s.%d", suffix, i))
		}
		return o
	case *types.Array:
		inner := func(sfx string, s *Sort) *Term { return mk(sfx, ArraySort(BV64, s)) }
		return &ArrayV{M: buildShape(u.Elem(), inner, suffix+"[]")}
	}
	return &OpaqueV{Why: "unsupported type " + t.String()}
}

func zeroOf(t types.Type) Value {
	mk := func(_ string, s *Sort) *Term { return zeroTerm(s) }
	v := buildShape(t, mk, "")
	return v
}

func zeroTerm(s *Sort) *Term {
	switch s.Kind {
	case SBool:
		return False
	case SBV:
		return BVU(0, s.Width)
	case SArray:
		return ConstArray(s, zeroTerm(s.Elem))
	case SUnint:
		if s == IfaceSrt {
			return NilIface
		}
	}
	panic("zeroTerm: " + s.String())
}

var NilIface = Var("iface!nil", IfaceSrt)

func ifaceTag(x *Term) *Term { return App("iface!tag", BV(32), x) }

// ---------------------------------------------------------------------------------------------
// State

type Obligation struct {
	Name    string
	Kind    string // post, xpost, nopanic, pre, inv-init, inv-pres, frame, unwind, decreases, lemma, cover, resolve
	Func    string
	Detail  string
	Where   string
	Assume  []*Term
	Goal    *Term
	Vars    []NamedVal // input variables worth printing in a model
	Cover   bool       // expect sat
	Failed  string     // non-empty: could not be generated (counts as failed)
	Clause  string
}

type NamedVal struct {
	Name string
	T    *Term
}

type State struct {
	PC     []*Term
	Heaps  map[string]Value // lifted over Array Ref .
	Mems   map[string]Value // lifted over Array Ref (Array BV64 .)
	Cells  map[int]Value
	Globs  map[*ssa.Global]Value
	Ghost  map[string]Value
	Alloc  *Term
	Loops  map[string]int // visits of loop headers on this path (per frame id)
	Dead   bool
	HavocAll int
	known    map[*Term]bool // lazily built index of PC (not cloned)
	knownN   int
	// Epoch suffixes name lazily created heaps after a havoc of everything, so that a location first
	// touched after the havoc is not mistaken for its value at function entry.
	Epoch     string
	EpochMaps string
	EpochEv   string
	EpochGhost string
	HavocMaps int
	HavocEv   int
}

func NewState() *State {
	return &State{Heaps: map[string]Value{}, Mems: map[string]Value{}, Cells: map[int]Value{}, Globs: map[*ssa.Global]Value{},
		Ghost: map[string]Value{}, Loops: map[string]int{}, Alloc: Var("alloc0", ArraySort(RefSort, BoolSort))}
}

func (s *State) Clone() *State {
	n := &State{PC: append([]*Term(nil), s.PC...), Heaps: make(map[string]Value, len(s.Heaps)), Mems: make(map[string]Value, len(s.Mems)),
		Cells: make(map[int]Value, len(s.Cells)), Globs: make(map[*ssa.Global]Value, len(s.Globs)), Ghost: make(map[string]Value, len(s.Ghost)),
		Loops: make(map[string]int, len(s.Loops)), Alloc: s.Alloc, Dead: s.Dead, HavocAll: s.HavocAll,
		Epoch: s.Epoch, EpochMaps: s.EpochMaps, EpochEv: s.EpochEv, EpochGhost: s.EpochGhost, HavocMaps: s.HavocMaps, HavocEv: s.HavocEv}
	for k, v := range s.Heaps {
		n.Heaps[k] = v
	}
	for k, v := range s.Mems {
		n.Mems[k] = v
	}
	for k, v := range s.Cells {
		n.Cells[k] = v
	}
	for k, v := range s.Globs {
		n.Globs[k] = v
	}
	for k, v := range s.Ghost {
		n.Ghost[k] = v
	}
	for k, v := range s.Loops {
		n.Loops[k] = v
	}
	return n
}

func (s *State) Assume(t *Term) {
	if t == True {
		return
	}
	if t == False {
		s.Dead = true
	}
	s.PC = append(s.PC, t)
}

// KnownTruth looks a boolean term up among the assumptions of this path (syntactically).
func (s *State) KnownTruth(t *Term) (val, known bool) {
	if t == True {
		return true, true
	}
	if t == False {
		return false, true
	}
	if s.known == nil || s.knownN != len(s.PC) {
		if s.known == nil || s.knownN > len(s.PC) {
			s.known = map[*Term]bool{}
			s.knownN = 0
		}
		var rec func(a *Term)
		rec = func(a *Term) {
			switch a.Op {
			case "and":
				for _, x := range a.Args {
					rec(x)
				}
			case "not":
				s.known[a.Args[0]] = false
			default:
				s.known[a] = true
			}
		}
		for _, a := range s.PC[s.knownN:] {
			rec(a)
		}
		s.knownN = len(s.PC)
	}
	v, ok := s.known[t]
	return v, ok
}

// Simp replaces a boolean term by a constant when its truth value is known on this path.
func (s *State) Simp(t *Term) *Term {
	if v, ok := s.KnownTruth(t); ok {
		return Bool(v)
	}
	if t.Op == "not" {
		if v, ok := s.KnownTruth(t.Args[0]); ok {
			return Bool(!v)
		}
	}
	return t
}

func liftRef(s *Sort) *Sort   { return ArraySort(RefSort, s) }
func liftMem(s *Sort) *Sort   { return ArraySort(RefSort, ArraySort(BV64, s)) }
func liftIndex(s *Sort) *Sort { return ArraySort(BV64, s) }

// fieldKey returns the heap key for field i of struct type st (named if possible).
func fieldKey(owner types.Type, i int) (string, *types.Var) {
	st := owner.Underlying().(*types.Struct)
	f := st.Field(i)
	return typeKey(owner) + "." + f.Name(), f
}

// Heap returns the (lazily created) field heap for key with field type ft.
func (s *State) Heap(key string, ft types.Type) Value {
	if h, ok := s.Heaps[key]; ok {
		return h
	}
	ep := s.Epoch
	if strings.HasPrefix(key, "map:") && s.EpochMaps != "" {
		ep = s.EpochMaps
	}
	h := freshOf("H:"+key+ep, ft, liftRef, true)
	s.Heaps[key] = h
	return h
}

func (s *State) Mem(et types.Type) Value {
	key := typeKey(et)
	if m, ok := s.Mems[key]; ok {
		return m
	}
	m := freshOf("M:"+key+s.Epoch, et, liftMem, true)
	s.Mems[key] = m
	return m
}

func isAggregate(t types.Type) bool {
	switch t.Underlying().(type) {
	case *types.Struct, *types.Array:
		return true
	}
	return false
}

func subRef(key string, ref *Term) *Term { return App("sub!"+key, RefSort, ref) }

// LoadField loads field i of the struct object at ref (owner = struct type).
func (s *State) LoadField(owner types.Type, ref *Term, i int) Value {
	key, f := fieldKey(owner, i)
	ft := f.Type()
	if isAggregate(ft) {
		return s.LoadObject(ft, subRef(key, ref))
	}
	h := s.Heap(key, ft)
	v := mapLeaves(h, func(t *Term) *Term { return Select(t, ref) })
	s.assumeWF(v, ft)
	return v
}

func (s *State) StoreField(owner types.Type, ref *Term, i int, v Value) {
	key, f := fieldKey(owner, i)
	ft := f.Type()
	if isAggregate(ft) {
		s.StoreObject(ft, subRef(key, ref), v)
		return
	}
	h := s.Heap(key, ft)
	s.Heaps[key] = zipLeaves(h, v, func(a, x *Term) *Term { return Store(a, ref, x) })
}

// LoadObject loads a whole struct/array value stored at ref.
func (s *State) LoadObject(t types.Type, ref *Term) Value {
	switch u := t.Underlying().(type) {
	case *types.Struct:
		o := &StructV{F: make([]Value, u.NumFields())}
		for i := 0; i < u.NumFields(); i++ {
			o.F[i] = s.LoadField(t, ref, i)
		}
		return o
	case *types.Array:
		m := s.Mem(u.Elem())
		return &ArrayV{M: mapLeaves(m, func(t *Term) *Term { return Select(t, ref) })}
	}
	panic("LoadObject: " + t.String())
}

func (s *State) StoreObject(t types.Type, ref *Term, v Value) {
	switch u := t.Underlying().(type) {
	case *types.Struct:
		sv, ok := v.(*StructV)
		if !ok {
			panic(fmt.Sprintf("StoreObject: struct expected, got %T", v))
		}
		for i := 0; i < u.NumFields(); i++ {
			s.StoreField(t, ref, i, sv.F[i])
		}
	case *types.Array:
		av := v.(*ArrayV)
		key := typeKey(u.Elem())
		m := s.Mem(u.Elem())
		s.Mems[key] = zipLeaves(m, av.M, func(a, x *Term) *Term { return Store(a, ref, x) })
	default:
		panic("StoreObject: " + t.String())
	}
}

// LoadElem loads element idx of array object arr (element type et).
func (s *State) LoadElem(et types.Type, arr, idx *Term) Value {
	m := s.Mem(et)
	v := mapLeaves(m, func(t *Term) *Term { return Select(Select(t, arr), idx) })
	s.assumeWF(v, et)
	return v
}

func (s *State) StoreElem(et types.Type, arr, idx *Term, v Value) {
	key := typeKey(et)
	m := s.Mem(et)
	s.Mems[key] = zipLeaves(m, v, func(a, x *Term) *Term { return Store(a, arr, Store(Select(a, arr), idx, x)) })
}

var maxLen = BVU(1<<40, 64)

// assumeWF adds well-formedness facts for freshly loaded / symbolic values of type t.
func (s *State) assumeWF(v Value, t types.Type) {
	switch x := v.(type) {
	case SliceV:
		if x.Len.IsConst() && x.Cap.IsConst() && x.Off.IsConst() {
			return
		}
		s.Assume(And(BVCmp("bvule", x.Len, x.Cap), BVCmp("bvule", x.Cap, maxLen), BVCmp("bvule", x.Off, maxLen)))
	case StringV:
		if x.Len.IsConst() && x.Off.IsConst() {
			return
		}
		s.Assume(And(BVCmp("bvule", x.Len, maxLen), BVCmp("bvule", x.Off, maxLen)))
	case *StructV:
		st := t.Underlying().(*types.Struct)
		for i, f := range x.F {
			s.assumeWF(f, st.Field(i).Type())
		}
	}
}

func (s *State) sortedHeapKeys() []string {
	var ks []string
	for k := range s.Heaps {
		ks = append(ks, k)
	}
	sort.Strings(ks)
	return ks
}

func describeValue(v Value) string {
	switch v := v.(type) {
	case *Term:
		return v.String()
	case SliceV:
		return fmt.Sprintf("slice{%s,%s,%s,%s}", v.Arr, v.Off, v.Len, v.Cap)
	case StringV:
		return fmt.Sprintf("string{%s,%s,%s}", v.Chars, v.Off, v.Len)
	case *StructV:
		var fs []string
		for _, f := range v.F {
			fs = append(fs, describeValue(f))
		}
		return "struct{" + strings.Join(fs, ", ") + "}"
	case *OpaqueV:
		return "opaque(" + v.Why + ")"
	case *PtrV:
		return fmt.Sprintf("ptr(kind=%d)", v.Kind)
	}
	return fmt.Sprintf("%T", v)
}
