package vc

// engine.go: loading of the real packages, contract resolution, global/initialiser handling.

import (
	"fmt"
	"go/token"
	"go/types"
	"os"
	"path/filepath"
	"sort"
	"strings"

	"golang.org/x/tools/go/packages"
	"golang.org/x/tools/go/ssa"
	"golang.org/x/tools/go/ssa/ssautil"
)

type Engine struct {
	RepoDir string
	prog    *ssa.Program
	pkgs    []*packages.Package
	byPath  map[string]*packages.Package
	cs      *ContractSet

	Obls       []*Obligation
	tags       map[string]int
	tagTypes   []types.Type
	nextCell   int
	nextFrame  int
	paths      int
	MaxPaths   int
	curFn      *ssa.Function
	curCt      *Contract
	curEntry   *State // entry state of the function under verification: old() in its loop clauses
	TrustedUse map[string]bool
	Intrinsics map[string]bool
	Abstract   map[string]bool
	AutoInlined map[string]bool // contract-less loop-free helpers of the module that were executed in place
	Notes      []string
	initStates map[*ssa.Package]*State
	initRefs   uint64
	inInit     bool
	funcByKey  map[string]*ssa.Function
	FuncStats  map[string]*FuncStat
	Verbose    bool
	inputVars  []NamedVal
	methodIDs  map[string]int
	initOK     map[*ssa.Package]bool
	initTainted map[*ssa.Global]bool // written by an init function that was not executed: no constant facts
	dispatch   map[string]func(p *Path, fr *Frame, c *ssa.CallCommon, recv Value, args []Value, dst ssa.Value, pos token.Pos) []*Path
}

type FuncStat struct {
	Name  string
	Pos   string
	Paths int
	Obls  int
}

const ModulePath = "github.com/kstenerud/go-concise-encoding"

// Load loads the packages matching patterns from repoDir (tag verif) and builds SSA.
func Load(repoDir string, patterns []string, overlay map[string][]byte) (*Engine, error) {
	cfg := &packages.Config{
		Mode:       packages.LoadAllSyntax,
		Dir:        repoDir,
		BuildFlags: []string{"-tags=verif"},
		Env:        append(os.Environ(), "GOFLAGS=-mod=mod", "GOPROXY=off", "GOSUMDB=off", "GOTOOLCHAIN=local"),
		Overlay:    overlay,
	}
	pkgs, err := packages.Load(cfg, patterns...)
	if err != nil {
		return nil, err
	}
	var errs []string
	packages.Visit(pkgs, nil, func(p *packages.Package) {
		for _, e := range p.Errors {
			errs = append(errs, e.Error())
		}
	})
	if len(errs) > 0 {
		return nil, fmt.Errorf("package load errors (does the tree compile?):\n%s", strings.Join(errs, "\n"))
	}
	prog, _ := ssautil.AllPackages(pkgs, ssa.GlobalDebug|ssa.BareInits)
	prog.Build()
	e := &Engine{RepoDir: repoDir, prog: prog, pkgs: pkgs, byPath: map[string]*packages.Package{}, cs: NewContractSet(),
		tags: map[string]int{}, MaxPaths: 20000, TrustedUse: map[string]bool{}, Intrinsics: map[string]bool{}, Abstract: map[string]bool{}, AutoInlined: map[string]bool{},
		initStates: map[*ssa.Package]*State{}, funcByKey: map[string]*ssa.Function{}, FuncStats: map[string]*FuncStat{}}
	packages.Visit(pkgs, nil, func(p *packages.Package) { e.byPath[p.PkgPath] = p })
	for fn := range ssautil.AllFunctions(prog) {
		if k := funcKey(fn); k != "" {
			e.funcByKey[k] = fn
		}
	}
	return e, nil
}

// funcKey: "pkgpath::(*T).M", "pkgpath::F", closures "pkgpath::(*T).M$1".
func funcKey(fn *ssa.Function) string {
	pkg := fn.Pkg
	if pkg == nil {
		if fn.Parent() != nil {
			p := fn
			for p.Parent() != nil {
				p = p.Parent()
			}
			pkg = p.Pkg
		}
		if pkg == nil {
			// method of a type from another package promoted / synthetic
			if fn.Object() != nil && fn.Object().Pkg() != nil {
				return fn.Object().Pkg().Path() + "::" + fn.RelString(fn.Object().Pkg())
			}
			return ""
		}
	}
	return pkg.Pkg.Path() + "::" + fn.RelString(pkg.Pkg)
}

func (e *Engine) typesPkg(path string) *types.Package {
	if p, ok := e.byPath[path]; ok {
		return p.Types
	}
	return nil
}

// findPackage resolves a package by its name as imported by from (or any loaded package with that name).
func (e *Engine) findPackage(from *types.Package, name string) *types.Package {
	if from != nil {
		if from.Name() == name {
			return from
		}
		for _, imp := range from.Imports() {
			if imp.Name() == name {
				return imp
			}
		}
		// import aliases: look at the package's files
		if pp, ok := e.byPath[from.Path()]; ok {
			for _, f := range pp.Syntax {
				for _, is := range f.Imports {
					if is.Name != nil && is.Name.Name == name {
						path := strings.Trim(is.Path.Value, `"`)
						if p, ok := e.byPath[path]; ok {
							return p.Types
						}
					}
				}
			}
		}
	}
	var cands []string
	for path, p := range e.byPath {
		if p.Types != nil && p.Types.Name() == name {
			cands = append(cands, path)
		}
	}
	sort.Strings(cands)
	// prefer packages of the module under verification
	for _, c := range cands {
		if strings.HasPrefix(c, ModulePath) {
			return e.byPath[c].Types
		}
	}
	if len(cands) > 0 {
		return e.byPath[cands[0]].Types
	}
	return nil
}

// LoadContracts reads contracts_verif.go from every loaded package dir of the module, with a
// fallback mirror directory, plus trusted contract files.
func (e *Engine) LoadContracts(mirrorDir, trustedDir, specDir string) error {
	for _, dir := range []string{trustedDir, specDir} {
		ents, _ := os.ReadDir(dir)
		for _, en := range ents {
			if en.IsDir() || !(strings.HasSuffix(en.Name(), ".ct") || strings.HasSuffix(en.Name(), ".spec")) {
				continue
			}
			if err := e.cs.ParseContractFile(filepath.Join(dir, en.Name()), ""); err != nil {
				return err
			}
		}
	}
	var paths []string
	for path := range e.byPath {
		paths = append(paths, path)
	}
	sort.Strings(paths)
	for _, path := range paths {
		p := e.byPath[path]
		if !strings.HasPrefix(path, ModulePath) {
			continue
		}
		rel := strings.TrimPrefix(strings.TrimPrefix(path, ModulePath), "/")
		f := filepath.Join(e.RepoDir, rel, "contracts_verif.go")
		if _, err := os.Stat(f); err != nil {
			m := filepath.Join(mirrorDir, rel, "contracts_verif.go")
			if _, err2 := os.Stat(m); err2 != nil {
				continue
			}
			e.Notes = append(e.Notes, "contract file missing in tree, mirror used: "+rel)
			f = m
		}
		_ = p
		if err := e.cs.ParseContractFile(f, path); err != nil {
			return err
		}
		// further contract files of the same package: contracts_verif_*.go
		more, _ := filepath.Glob(filepath.Join(filepath.Dir(f), "contracts_verif_*.go"))
		sort.Strings(more)
		for _, mf := range more {
			if err := e.cs.ParseContractFile(mf, path); err != nil {
				return err
			}
		}
	}
	// method ids of logged interfaces are fixed up front (independent of call order)
	var logs []string
	for n := range e.cs.LogIfaces {
		logs = append(logs, n)
	}
	sort.Strings(logs)
	for _, n := range logs {
		k := strings.Index(n, ".")
		if k < 0 {
			continue
		}
		if p := e.findPackage(nil, n[:k]); p != nil {
			if tn, ok := p.Scope().Lookup(n[k+1:]).(*types.TypeName); ok {
				if it, ok := tn.Type().Underlying().(*types.Interface); ok {
					e.registerLogMethods(it)
				}
			}
		}
	}
	return nil
}

func (e *Engine) typeTag(t types.Type) *Term {
	k := typeKey(t)
	id, ok := e.tags[k]
	if !ok {
		id = len(e.tags) + 1
		e.tags[k] = id
		e.tagTypes = append(e.tagTypes, t)
	}
	return BVU(uint64(id), 32)
}

// ifacePayload projects the dynamic value of type t out of interface value x.
func (e *Engine) ifacePayload(x *Term, t types.Type) Value {
	key := typeKey(t)
	if _, ok := t.Underlying().(*types.Interface); ok {
		return x
	}
	return buildShape(t, func(suffix string, s *Sort) *Term { return App("iface!pay:"+key+suffix, s, x) }, "")
}

// makeIface boxes value v of concrete type t.
func (e *Engine) makeIface(st *State, v Value, t types.Type) *Term {
	if _, ok := t.Underlying().(*types.Interface); ok {
		return v.(*Term)
	}
	if _, ok := v.(*FuncV); ok {
		// a function value boxed in an interface: only its dynamic type is tracked
		v = &OpaqueV{Why: "function value in interface"}
	}
	if _, ok := v.(*OpaqueV); ok {
		h := Fresh("iface", IfaceSrt)
		st.Assume(Eq(ifaceTag(h), e.typeTag(t)))
		return h
	}
	if gp, ok := v.(*PtrV); ok && gp.Kind == PGlobal {
		// pointer to a package-level variable: its fixed address
		v = globalRef(gp.Glob)
	}
	key := typeKey(t)
	ls := leaves(v)
	h := App("iface!mk:"+key, IfaceSrt, ls...)
	st.Assume(Eq(ifaceTag(h), e.typeTag(t)))
	pv := e.ifacePayload(h, t)
	zipLeaves(pv, v, func(p, x *Term) *Term { st.Assume(Eq(p, x)); return p })
	return h
}

func (e *Engine) note(f string, a ...interface{}) {
	s := fmt.Sprintf(f, a...)
	for _, n := range e.Notes {
		if n == s {
			return
		}
	}
	e.Notes = append(e.Notes, s)
}

// ---------------------------------------------------------------------------------------------
// globals

// sentinelErrors: package-level error values of the standard library that are never reassigned.
var sentinelErrors = map[string]bool{"io::EOF": true, "io::ErrUnexpectedEOF": true, "io::ErrNoProgress": true, "io::ErrShortWrite": true}

func (e *Engine) isConstGlobal(g *ssa.Global) bool {
	return e.cs.ConstGl[globKey(g)] || sentinelErrors[globKey(g)]
}

func globKey(g *ssa.Global) string { return g.Pkg.Pkg.Path() + "::" + g.Name() }

func globalElemType(g *ssa.Global) types.Type { return g.Type().(*types.Pointer).Elem() }

// globalRef: aggregate globals live at a fixed symbolic reference.
// Each aggregate global gets a distinct concrete address (so that reads of one table are
// syntactically independent of writes to another).
var globRefIDs = map[string]uint64{}

// Function values stored in memory: each stored closure / function value gets a fixed non-nil
// address of its own; the registry maps the address back to the function and its bindings so that a
// later call through the loaded value executes (or applies the contract of) that very function.
var closureTab = map[uint64]*FuncV{}
var closureByFn = map[*FuncV]uint64{}

func closureRef(fv *FuncV) *Term {
	if id, ok := closureByFn[fv]; ok {
		return BVU(id, 64)
	}
	id := 0x5000000000000000 + uint64(len(closureTab)+1)<<16
	closureTab[id] = fv
	closureByFn[fv] = id
	return BVU(id, 64)
}

// closureOf resolves a function-valued term to the registered function, if it is one.
func closureOf(t *Term) *FuncV {
	if t != nil && t.IsConst() && t.Sort.Kind == SBV && t.Sort.Width == 64 && t.Val.IsUint64() {
		return closureTab[t.Val.Uint64()]
	}
	return nil
}

func globalRef(g *ssa.Global) *Term {
	k := globKey(g)
	id, ok := globRefIDs[k]
	if !ok {
		id = uint64(len(globRefIDs) + 1)
		globRefIDs[k] = id
	}
	return BVU(0x6000000000000000+id<<24, 64)
}

// loadGlobal reads a package-level variable in state st.
func (e *Engine) loadGlobal(st *State, g *ssa.Global) Value {
	t := globalElemType(g)
	if isAggregate(t) {
		e.importConstGlobal(st, g)
		return st.LoadObject(t, globalRef(g))
	}
	if v, ok := st.Globs[g]; ok {
		return v
	}
	var v Value
	if e.cs.ConstGl[globKey(g)] && !e.inInit && !e.taintedByInit(g) {
		is := e.initState(g.Pkg)
		if iv, ok := is.Globs[g]; ok && e.initOK[g.Pkg] {
			v = iv
			st.Globs[g] = v
			e.importContents(st, is, v, t)
			return v
		}
		if e.initOK[g.Pkg] {
			// never assigned by the initialiser: the zero value
			v = zeroOf(t)
			st.Globs[g] = v
			return v
		}
	}
	if e.inInit {
		v = zeroOf(t)
	} else {
		ep := st.Epoch
		if sentinelErrors[globKey(g)] {
			ep = ""
		}
		v = freshOf("Glob:"+globKey(g)+ep, t, nil, true)
		st.assumeWF(v, t)
		if sentinelErrors[globKey(g)] {
			// exported sentinel errors of the standard library are non-nil and pairwise distinct
			if it, ok := v.(*Term); ok && it.Sort == IfaceSrt {
				st.Assume(Ne(it, NilIface))
				st.Assume(Ne(ifaceTag(it), BVU(0, 32)))
				for k := range sentinelErrors {
					if k != globKey(g) {
						st.Assume(Ne(it, Var("Glob:"+k, IfaceSrt)))
					}
				}
			}
		}
	}
	st.Globs[g] = v
	return v
}

// importConstGlobal copies the initialiser facts of an aggregate constant global into st (once).
// taintedByInit: the package initialiser was run and an init function that could not be executed
// mentions g.
func (e *Engine) taintedByInit(g *ssa.Global) bool {
	e.initState(g.Pkg)
	return e.initTainted[g]
}

func (e *Engine) importConstGlobal(st *State, g *ssa.Global) {
	if e.inInit || !e.cs.ConstGl[globKey(g)] {
		return
	}
	if e.taintedByInit(g) {
		return
	}
	if _, done := st.Globs[g]; done {
		return
	}
	st.Globs[g] = globalRef(g)
	is := e.initState(g.Pkg)
	if !e.initOK[g.Pkg] {
		return
	}
	t := globalElemType(g)
	ref := globalRef(g)
	switch u := t.Underlying().(type) {
	case *types.Array:
		n := u.Len()
		if n > 4096 {
			e.note("const global %s too large to import", g.Name())
			return
		}
		for i := int64(0); i < n; i++ {
			idx := BVU(uint64(i), 64)
			iv := is.LoadElem(u.Elem(), ref, idx)
			cv := st.LoadElem(u.Elem(), ref, idx)
			zipLeaves(cv, iv, func(c, x *Term) *Term {
				if isGround(x) {
					st.Assume(Eq(c, x))
				}
				return c
			})
		}
	case *types.Struct:
		iv := is.LoadObject(t, ref)
		cv := st.LoadObject(t, ref)
		zipLeaves(cv, iv, func(c, x *Term) *Term {
			if isGround(x) {
				st.Assume(Eq(c, x))
			}
			return c
		})
	}
}

// importContents: for a slice-valued constant global, copy element facts.
func (e *Engine) importContents(st, is *State, v Value, t types.Type) {
	sv, ok := v.(SliceV)
	if !ok {
		return
	}
	et := t.Underlying().(*types.Slice).Elem()
	if !sv.Len.IsConst() || !sv.Off.IsConst() || sv.Len.Val.Int64() > 4096 {
		return
	}
	st.Assume(Select(st.Alloc, sv.Arr))
	n := sv.Len.Val.Int64()
	for i := int64(0); i < n; i++ {
		idx := BVBin("bvadd", sv.Off, BVU(uint64(i), 64))
		iv := is.LoadElem(et, sv.Arr, idx)
		cv := st.LoadElem(et, sv.Arr, idx)
		zipLeaves(cv, iv, func(c, x *Term) *Term {
			if isGround(x) {
				st.Assume(Eq(c, x))
			}
			return c
		})
	}
}

func isGround(t *Term) bool {
	if t.IsConst() || t == True || t == False {
		return true
	}
	// constant arrays (the characters of a string literal): store chains over a constant array
	if t.Op == "store" || t.Op == "constarr" {
		for _, a := range t.Args {
			if !isGround(a) {
				return false
			}
		}
		return true
	}
	return false
}

func (e *Engine) storeGlobal(st *State, g *ssa.Global, v Value) {
	t := globalElemType(g)
	if isAggregate(t) {
		st.StoreObject(t, globalRef(g), v)
		return
	}
	st.Globs[g] = v
}

// initState symbolically executes the package initialiser (explicit initialisers only).
func (e *Engine) initState(pkg *ssa.Package) *State {
	if s, ok := e.initStates[pkg]; ok {
		return s
	}
	st := NewState()
	// everything starts zeroed: model by executing from a state where reads of untouched
	// locations give stable variables; only ground values are imported afterwards.
	e.initStates[pkg] = st
	fn := pkg.Func("init")
	if fn == nil || len(fn.Blocks) == 0 {
		return st
	}
	// package-level aggregates start zeroed
	var names []string
	for n := range pkg.Members {
		names = append(names, n)
	}
	sort.Strings(names)
	for _, n := range names {
		if g, ok := pkg.Members[n].(*ssa.Global); ok && isAggregate(globalElemType(g)) {
			func() {
				defer func() { recover() }()
				st.StoreObject(globalElemType(g), globalRef(g), zeroOf(globalElemType(g)))
			}()
		}
	}
	saveFn, saveCt, saveInit := e.curFn, e.curCt, e.inInit
	e.inInit = true
	e.curFn, e.curCt = fn, &Contract{Kind: "func", Target: "init", Havoc: true, MayPanic: true, Loops: map[int]*LoopSpec{}}
	saveObls := e.Obls
	func() {
		defer func() {
			if r := recover(); r != nil {
				e.note("package init of %s could not be executed symbolically: %v", pkg.Pkg.Path(), r)
			}
		}()
		p := &Path{st: st}
		p.stack = []*Frame{e.newFrame(fn, nil, nil)}
		p.stack[0].top = true
		e.runPaths(p, func(p *Path, normal bool, res []Value) {
			if normal {
				if e.initOK == nil {
					e.initOK = map[*ssa.Package]bool{}
				}
				if _, seen := e.initOK[pkg]; seen {
					// more than one way through the initialiser: its facts are not used
					e.initOK[pkg] = false
					e.initStates[pkg] = NewState()
					e.note("package initialiser of %s has more than one feasible path; const_global facts are not imported", pkg.Pkg.Path())
					return
				}
				e.initStates[pkg] = p.st
				e.initOK[pkg] = true
			}
		})
	}()
	e.Obls = saveObls
	e.curFn, e.curCt, e.inInit = saveFn, saveCt, saveInit
	return e.initStates[pkg]
}

// checkConstGlobals emits obligations that no function outside init writes a const_global.
func (e *Engine) checkConstGlobals() {
	for key := range e.cs.ConstGl {
		parts := strings.SplitN(key, "::", 2)
		p, ok := e.byPath[parts[0]]
		if !ok {
			continue
		}
		sp := e.prog.Package(p.Types)
		g, ok := sp.Members[parts[1]].(*ssa.Global)
		if !ok {
			e.Obls = append(e.Obls, &Obligation{Name: "const-global:" + key, Kind: "resolve", Failed: "const_global names no package variable"})
			continue
		}
		bad := ""
		for _, m := range sp.Members {
			fns := []*ssa.Function{}
			if f, ok := m.(*ssa.Function); ok {
				fns = append(fns, f)
			}
			if tn, ok := m.(*ssa.Type); ok {
				for _, t := range []types.Type{tn.Type(), types.NewPointer(tn.Type())} {
					ms := e.prog.MethodSets.MethodSet(t)
					for i := 0; i < ms.Len(); i++ {
						if f := e.prog.MethodValue(ms.At(i)); f != nil {
							fns = append(fns, f)
						}
					}
				}
			}
			for len(fns) > 0 {
				f := fns[0]
				fns = fns[1:]
				fns = append(fns, f.AnonFuncs...)
				if f.Name() == "init" || strings.HasPrefix(f.Name(), "init#") || f.Synthetic != "" {
					continue
				}
				for _, b := range f.Blocks {
					for _, in := range b.Instrs {
						if writesGlobal(in, g) {
							bad = f.String()
						}
					}
				}
			}
		}
		o := &Obligation{Name: "const-global:" + key, Kind: "frame", Func: key, Goal: True, Detail: "no function outside init writes " + key}
		if bad != "" {
			o.Failed = "written by " + bad
		}
		e.Obls = append(e.Obls, o)
	}
}

func writesGlobal(in ssa.Instruction, g *ssa.Global) bool {
	st, ok := in.(*ssa.Store)
	if !ok {
		return false
	}
	var derives func(v ssa.Value, depth int) bool
	derives = func(v ssa.Value, depth int) bool {
		if depth > 6 {
			return false
		}
		switch x := v.(type) {
		case *ssa.Global:
			return x == g
		case *ssa.IndexAddr:
			return derives(x.X, depth+1)
		case *ssa.FieldAddr:
			return derives(x.X, depth+1)
		case *ssa.UnOp:
			return derives(x.X, depth+1)
		case *ssa.Slice:
			return derives(x.X, depth+1)
		}
		return false
	}
	return derives(st.Addr, 0)
}
