package vc

// eval.go: evaluation of contract expressions to symbolic values in a (cur, old) state pair.

import (
	"fmt"
	"go/constant"
	"go/types"
	"math/big"
	"sort"
	"strings"

	"golang.org/x/tools/go/ssa"
)

// TV is a typed symbolic value; C != nil marks an untyped integer constant.
type TV struct {
	V Value
	T types.Type
	C *big.Int
}

// GhostArrT is the pseudo type of ghost arrays: array[Idx]Elem.
type GhostArrT struct{ Idx, Elem types.Type }

func (g *GhostArrT) Underlying() types.Type { return g }
func (g *GhostArrT) String() string         { return "array[" + g.Idx.String() + "]" + g.Elem.String() }

type evalErr string

func evalFail(f string, a ...interface{}) { panic(evalErr(fmt.Sprintf(f, a...))) }

type EvalCtx struct {
	eng   *Engine
	pkg   *types.Package
	cur   *State
	old   *State
	env   map[string]TV
	depth int
	// loop-variable resolver (name -> value), used for invariants
	lookup func(name string) (TV, bool)
	// bound variables of the enclosing quantifiers (side facts of the floating-point model that
	// mention them are asserted for all their values)
	qbound []*Term
	// last resort for a name that resolves to nothing: a renamed parameter or loop variable (rename.go)
	unknown func(name string) (TV, bool)
}

// assume records a defining fact of an auxiliary term introduced while evaluating (for example the
// bit pattern of a floating-point result). Under a quantifier the fact holds for every value of the
// bound variables, so it is asserted universally instead of leaking them.
func (c *EvalCtx) assume(t *Term) {
	if len(c.qbound) > 0 {
		c.cur.Assume(Forall(c.qbound, t))
		return
	}
	c.cur.Assume(t)
}

func (c *EvalCtx) with(env map[string]TV) *EvalCtx {
	n := *c
	n.env = env
	return &n
}

func (c *EvalCtx) bind(name string, v TV) *EvalCtx {
	env := make(map[string]TV, len(c.env)+1)
	for k, x := range c.env {
		env[k] = x
	}
	env[name] = v
	return c.with(env)
}

// EvalBool evaluates e to a Bool term; errors are returned.
func (c *EvalCtx) EvalBool(e Expr) (t *Term, err error) {
	defer func() {
		if r := recover(); r != nil {
			if ee, ok := r.(evalErr); ok {
				err = fmt.Errorf("%s", string(ee))
				return
			}
			if s, ok := r.(string); ok {
				err = fmt.Errorf("internal: %s", s)
				return
			}
			panic(r)
		}
	}()
	tv := c.eval(e)
	b, ok := tv.V.(*Term)
	if !ok || b.Sort != BoolSort {
		return nil, fmt.Errorf("boolean expected in %s", ExprString(e))
	}
	return expandBounded(b), nil
}

func (c *EvalCtx) Eval(e Expr) (tv TV, err error) {
	defer func() {
		if r := recover(); r != nil {
			if ee, ok := r.(evalErr); ok {
				err = fmt.Errorf("%s", string(ee))
				return
			}
			if s, ok := r.(string); ok {
				err = fmt.Errorf("internal: %s", s)
				return
			}
			panic(r)
		}
	}()
	return c.eval(e), nil
}

var basicTypes = map[string]types.Type{
	"bool": types.Typ[types.Bool], "int": types.Typ[types.Int], "int8": types.Typ[types.Int8], "int16": types.Typ[types.Int16],
	"int32": types.Typ[types.Int32], "int64": types.Typ[types.Int64], "uint": types.Typ[types.Uint], "uint8": types.Typ[types.Uint8],
	"uint16": types.Typ[types.Uint16], "uint32": types.Typ[types.Uint32], "uint64": types.Typ[types.Uint64], "byte": types.Typ[types.Uint8],
	"rune": types.Typ[types.Int32], "uintptr": types.Typ[types.Uintptr], "float32": types.Typ[types.Float32], "float64": types.Typ[types.Float64],
	"string": types.Typ[types.String],
}

// resolveType resolves a type name as written in contracts.
func (c *EvalCtx) resolveType(name string) types.Type {
	if strings.HasPrefix(name, "array[") {
		k := strings.Index(name, "]")
		return &GhostArrT{Idx: c.resolveType(name[6:k]), Elem: c.resolveType(name[k+1:])}
	}
	if strings.HasPrefix(name, "*") {
		return types.NewPointer(c.resolveType(name[1:]))
	}
	if strings.HasPrefix(name, "[]") {
		return types.NewSlice(c.resolveType(name[2:]))
	}
	if t, ok := basicTypes[name]; ok {
		return t
	}
	if name == "error" {
		return types.Universe.Lookup("error").Type()
	}
	if name == "any" {
		return types.NewInterfaceType(nil, nil)
	}
	if k := strings.Index(name, "."); k >= 0 {
		p := c.eng.findPackage(c.pkg, name[:k])
		if p == nil {
			evalFail("unknown package %q in type %s", name[:k], name)
		}
		if o, ok := p.Scope().Lookup(name[k+1:]).(*types.TypeName); ok {
			return o.Type()
		}
		evalFail("unknown type %s", name)
	}
	if c.pkg != nil {
		if o, ok := c.pkg.Scope().Lookup(name).(*types.TypeName); ok {
			return o.Type()
		}
	}
	evalFail("unknown type %s", name)
	return nil
}

func (c *EvalCtx) tryType(e Expr) types.Type {
	var name string
	switch e := e.(type) {
	case *Ident:
		name = e.Name
		if _, ok := c.env[name]; ok {
			return nil
		}
	case *Selector:
		id, ok := e.X.(*Ident)
		if !ok {
			return nil
		}
		if _, bound := c.env[id.Name]; bound {
			return nil
		}
		name = id.Name + "." + e.Sel
	default:
		return nil
	}
	var t types.Type
	func() {
		defer func() {
			if r := recover(); r != nil {
				if _, ok := r.(evalErr); !ok {
					panic(r)
				}
			}
		}()
		t = c.resolveType(name)
	}()
	return t
}

func constTV(v constant.Value, t types.Type) TV {
	switch v.Kind() {
	case constant.Bool:
		return TV{V: Bool(constant.BoolVal(v)), T: types.Typ[types.Bool]}
	case constant.Int:
		bi, _ := new(big.Int).SetString(v.ExactString(), 10)
		if b, ok := t.Underlying().(*types.Basic); ok && b.Info()&types.IsUntyped != 0 {
			return TV{C: bi}
		}
		return TV{V: BVConst(bi, intWidth(t)), T: t}
	case constant.String:
		return TV{V: constString(constant.StringVal(v)), T: types.Typ[types.String]}
	case constant.Float:
		f, _ := constant.Float64Val(v)
		if isFloat(t) && intWidth(t) == 32 {
			return TV{V: BVU(uint64(f32bits(float32(f))), 32), T: t}
		}
		return TV{V: BVU(f64bits(f), 64), T: types.Typ[types.Float64]}
	}
	evalFail("unsupported constant %v", v)
	return TV{}
}

func constString(s string) StringV {
	arr := ConstArray(ByteArr, BVU(0, 8))
	if len(s) <= 64 {
		for i := 0; i < len(s); i++ {
			arr = Store(arr, BVU(uint64(i), 64), BVU(uint64(s[i]), 8))
		}
	} else {
		arr = Var("strconst!"+sanitize(fmt.Sprintf("%x", hashString(s))), ByteArr)
	}
	return StringV{arr, BVU(0, 64), BVU(uint64(len(s)), 64)}
}

func hashString(s string) uint64 {
	var h uint64 = 1469598103934665603
	for i := 0; i < len(s); i++ {
		h ^= uint64(s[i])
		h *= 1099511628211
	}
	return h
}

func (c *EvalCtx) eval(e Expr) TV {
	switch e := e.(type) {
	case *IntLit:
		return TV{C: e.Val}
	case *BoolLit:
		return TV{V: Bool(e.Val), T: types.Typ[types.Bool]}
	case *StrLit:
		return TV{V: constString(e.Val), T: types.Typ[types.String]}
	case *Ident:
		return c.evalIdent(e.Name)
	case *Selector:
		return c.evalSelector(e)
	case *IndexE:
		return c.evalIndex(e)
	case *SliceE:
		return c.evalSlice(e)
	case *CallE:
		return c.evalCall(e)
	case *Unary:
		if e.Op == "&" {
			// address of a package-level variable
			var pkg *types.Package
			var name string
			switch x := e.X.(type) {
			case *Ident:
				pkg, name = c.pkg, x.Name
			case *Selector:
				if id, ok := x.X.(*Ident); ok {
					pkg, name = c.eng.findPackage(c.pkg, id.Name), x.Sel
				}
			}
			if pkg == nil {
				evalFail("& needs a package-level variable")
			}
			v, ok := pkg.Scope().Lookup(name).(*types.Var)
			sp := c.eng.prog.Package(pkg)
			if !ok || sp == nil {
				evalFail("&%s: no such package-level variable", name)
			}
			g, ok := sp.Members[name].(*ssa.Global)
			if !ok {
				evalFail("&%s: global not found", name)
			}
			return TV{V: globalRef(g), T: types.NewPointer(v.Type())}
		}
		x := c.eval(e.X)
		switch e.Op {
		case "!":
			return TV{V: Not(c.boolOf(x, e.X)), T: types.Typ[types.Bool]}
		case "-":
			if x.C != nil {
				return TV{C: new(big.Int).Neg(x.C)}
			}
			if isFloat(x.T) {
				w := intWidth(x.T)
				return TV{V: BVBin("bvxor", x.V.(*Term), BVConst(new(big.Int).Lsh(big.NewInt(1), uint(w-1)), w)), T: x.T}
			}
			return TV{V: BVNeg(x.V.(*Term)), T: x.T}
		case "^":
			if x.C != nil {
				return TV{C: new(big.Int).Not(x.C)}
			}
			return TV{V: BVNot(x.V.(*Term)), T: x.T}
		case "+":
			return x
		}
	case *Binary:
		return c.evalBinary(e)
	case *Quant:
		env := make(map[string]TV, len(c.env)+len(e.Vars))
		for k, x := range c.env {
			env[k] = x
		}
		var bnd []*Term
		for _, qv := range e.Vars {
			t := c.resolveType(qv.Type)
			s := scalarSort(t)
			if s == nil {
				evalFail("quantified variable %s must be scalar", qv.Name)
			}
			T.fresh["q:"+qv.Name]++
			b := Var(fmt.Sprintf("%s?%d", qv.Name, T.fresh["q:"+qv.Name]), s)
			bnd = append(bnd, b)
			env[qv.Name] = TV{V: b, T: t}
		}
		sub := c.with(env)
		sub.qbound = append(append([]*Term(nil), c.qbound...), bnd...)
		body := c.boolOf(sub.eval(e.Body), e.Body)
		if e.Forall {
			return TV{V: Forall(bnd, body), T: types.Typ[types.Bool]}
		}
		return TV{V: Exists(bnd, body), T: types.Typ[types.Bool]}
	}
	evalFail("cannot evaluate %s", ExprString(e))
	return TV{}
}

func (c *EvalCtx) boolOf(x TV, e Expr) *Term {
	b, ok := x.V.(*Term)
	if !ok || b.Sort != BoolSort {
		evalFail("boolean expected: %s", ExprString(e))
	}
	return b
}

func (c *EvalCtx) evalIdent(name string) TV {
	if v, ok := c.env[name]; ok {
		return v
	}
	if c.lookup != nil {
		if v, ok := c.lookup(name); ok {
			return v
		}
	}
	if name == "nil" {
		return TV{V: nil, T: types.Typ[types.UntypedNil]}
	}
	if g, ok := c.eng.cs.Ghosts[name]; ok && !g.IsFunc {
		t := c.resolveType(g.Type)
		return TV{V: c.cur.ghostVal(name, t), T: t}
	}
	if c.pkg != nil {
		if tv, ok := c.lookupPkgObj(c.pkg, name); ok {
			return tv
		}
	}
	if c.unknown != nil {
		if tv, ok := c.unknown(name); ok {
			return tv
		}
	}
	evalFail("unknown identifier %q", name)
	return TV{}
}

func (s *State) ghostVal(name string, t types.Type) Value {
	if v, ok := s.Ghost[name]; ok {
		return v
	}
	var v Value
	if ga, ok := t.(*GhostArrT); ok {
		es := scalarSort(ga.Elem)
		is := scalarSort(ga.Idx)
		if es == nil || is == nil {
			evalFail("ghost array %s: scalar index/element required", name)
		}
		v = Var("G:"+name+s.EpochGhost, ArraySort(is, es))
	} else {
		v = freshOf("G:"+name+s.EpochGhost, t, nil, true)
	}
	s.Ghost[name] = v
	return v
}

func (c *EvalCtx) lookupPkgObj(p *types.Package, name string) (TV, bool) {
	o := p.Scope().Lookup(name)
	switch o := o.(type) {
	case *types.Const:
		return constTV(o.Val(), o.Type()), true
	case *types.Var:
		// global variable: load through the engine
		sp := c.eng.prog.Package(p)
		if sp == nil {
			evalFail("package %s not loaded in SSA", p.Path())
		}
		g, ok := sp.Members[name].(*ssa.Global)
		if !ok {
			evalFail("global %s not found", name)
		}
		return TV{V: c.eng.loadGlobal(c.cur, g), T: o.Type()}, true
	}
	return TV{}, false
}

func (c *EvalCtx) evalSelector(e *Selector) TV {
	if id, ok := e.X.(*Ident); ok {
		_, bound := c.env[id.Name]
		if !bound && c.lookup != nil {
			_, bound = c.lookup(id.Name)
		}
		_, isGhost := c.eng.cs.Ghosts[id.Name]
		if !bound && !isGhost {
			// spec constant namespace e.g. cbe.X is handled in evalCall; package-qualified object
			if p := c.eng.findPackage(c.pkg, id.Name); p != nil {
				if tv, ok := c.lookupPkgObj(p, e.Sel); ok {
					return tv
				}
				evalFail("unknown object %s.%s", id.Name, e.Sel)
			}
		}
	}
	x := c.eval(e.X)
	return c.selectField(x, e.Sel, e)
}

func (c *EvalCtx) selectField(x TV, sel string, e Expr) TV {
	switch v := x.V.(type) {
	case SliceV:
		switch sel {
		case "arr":
			return TV{V: v.Arr, T: types.Typ[types.Uint64]}
		case "off":
			return TV{V: v.Off, T: types.Typ[types.Int]}
		case "len":
			return TV{V: v.Len, T: types.Typ[types.Int]}
		case "cap":
			return TV{V: v.Cap, T: types.Typ[types.Int]}
		}
	case StringV:
		switch sel {
		case "len":
			return TV{V: v.Len, T: types.Typ[types.Int]}
		}
	}
	if x.T == nil {
		evalFail("cannot select %s on untyped value in %s", sel, ExprString(e))
	}
	t := x.T
	var st *types.Struct
	var owner types.Type
	isPtr := false
	if p, ok := t.Underlying().(*types.Pointer); ok {
		isPtr = true
		owner = p.Elem()
	} else {
		owner = t
	}
	st, ok := owner.Underlying().(*types.Struct)
	if !ok {
		evalFail("selector %s on non-struct %s", sel, t)
	}
	for i := 0; i < st.NumFields(); i++ {
		if st.Field(i).Name() == sel {
			ft := st.Field(i).Type()
			if isPtr {
				ref := x.V.(*Term)
				if isAggregate(ft) {
					key, _ := fieldKey(owner, i)
					// keep as pointer to the embedded aggregate so that further selection works
					return TV{V: subRef(key, ref), T: types.NewPointer(ft)}
				}
				return TV{V: c.cur.LoadField(owner, ref, i), T: ft}
			}
			return TV{V: x.V.(*StructV).F[i], T: ft}
		}
	}
	evalFail("no field %s in %s", sel, owner)
	return TV{}
}

func (c *EvalCtx) asIndex(i TV) *Term {
	if i.C != nil {
		return BVConst(i.C, 64)
	}
	t := i.V.(*Term)
	if t.Sort.Kind != SBV {
		evalFail("integer index expected")
	}
	if isSigned(i.T) {
		return SignExt(t, 64)
	}
	return ZeroExt(t, 64)
}

func (c *EvalCtx) evalIndex(e *IndexE) TV {
	x := c.eval(e.X)
	i := c.eval(e.I)
	switch v := x.V.(type) {
	case SliceV:
		et := x.T.Underlying().(*types.Slice).Elem()
		return TV{V: c.cur.LoadElem(et, v.Arr, BVBin("bvadd", v.Off, c.asIndex(i))), T: et}
	case StringV:
		return TV{V: Select(v.Chars, BVBin("bvadd", v.Off, c.asIndex(i))), T: types.Typ[types.Uint8]}
	case *ArrayV:
		et := x.T.Underlying().(*types.Array).Elem()
		idx := c.asIndex(i)
		return TV{V: mapLeaves(v.M, func(t *Term) *Term { return Select(t, idx) }), T: et}
	case *Term:
		if ga, ok := x.T.(*GhostArrT); ok {
			ix := c.convert(i, ga.Idx)
			return TV{V: Select(v, ix.V.(*Term)), T: ga.Elem}
		}
		if p, ok := x.T.Underlying().(*types.Pointer); ok {
			if at, ok := p.Elem().Underlying().(*types.Array); ok {
				return TV{V: c.cur.LoadElem(at.Elem(), v, c.asIndex(i)), T: at.Elem()}
			}
		}
		if mt, ok := x.T.Underlying().(*types.Map); ok {
			mv := c.cur.mapState(v, mt)
			k := c.convert(i, mt.Key())
			return TV{V: mapLeaves(mv.Val, func(t *Term) *Term { return Select(t, k.V.(*Term)) }), T: mt.Elem()}
		}
	}
	evalFail("cannot index %s", ExprString(e.X))
	return TV{}
}

func (c *EvalCtx) evalSlice(e *SliceE) TV {
	x := c.eval(e.X)
	switch v := x.V.(type) {
	case SliceV:
		lo := BVU(0, 64)
		if e.Lo != nil {
			lo = c.asIndex(c.eval(e.Lo))
		}
		hi := v.Len
		if e.Hi != nil {
			hi = c.asIndex(c.eval(e.Hi))
		}
		return TV{V: SliceV{v.Arr, BVBin("bvadd", v.Off, lo), BVBin("bvsub", hi, lo), BVBin("bvsub", v.Cap, lo)}, T: x.T}
	case StringV:
		lo := BVU(0, 64)
		if e.Lo != nil {
			lo = c.asIndex(c.eval(e.Lo))
		}
		hi := v.Len
		if e.Hi != nil {
			hi = c.asIndex(c.eval(e.Hi))
		}
		return TV{V: StringV{v.Chars, BVBin("bvadd", v.Off, lo), BVBin("bvsub", hi, lo)}, T: x.T}
	}
	evalFail("cannot slice %s", ExprString(e.X))
	return TV{}
}

func calleeName(e Expr) string {
	switch f := e.(type) {
	case *Ident:
		return f.Name
	case *Selector:
		if id, ok := f.X.(*Ident); ok {
			return id.Name + "." + f.Sel
		}
	}
	return ""
}

func (c *EvalCtx) evalCall(e *CallE) TV {
	name := calleeName(e.Fun)
	switch name {
	case "old":
		n := *c
		n.cur = c.old
		return n.eval(e.Args[0])
	case "len", "cap":
		x := c.eval(e.Args[0])
		switch v := x.V.(type) {
		case SliceV:
			if name == "cap" {
				return TV{V: v.Cap, T: types.Typ[types.Int]}
			}
			return TV{V: v.Len, T: types.Typ[types.Int]}
		case StringV:
			return TV{V: v.Len, T: types.Typ[types.Int]}
		case *ArrayV:
			return TV{C: big.NewInt(x.T.Underlying().(*types.Array).Len())}
		case *Term:
			if mt, ok := x.T.Underlying().(*types.Map); ok {
				return TV{V: c.cur.mapState(v, mt).Card, T: types.Typ[types.Int]}
			}
			if p, ok := x.T.Underlying().(*types.Pointer); ok {
				if at, ok := p.Elem().Underlying().(*types.Array); ok {
					return TV{C: big.NewInt(at.Len())}
				}
			}
		}
		evalFail("len of %s", ExprString(e.Args[0]))
	case "ite":
		cnd := c.cur.Simp(c.boolOf(c.eval(e.Args[0]), e.Args[0]))
		if cnd == True {
			return c.eval(e.Args[1])
		}
		if cnd == False {
			return c.eval(e.Args[2])
		}
		a, b := c.eval(e.Args[1]), c.eval(e.Args[2])
		a, b = c.unify(a, b)
		if a.C != nil {
			a = c.convert(a, types.Typ[types.Int])
			b = c.convert(b, types.Typ[types.Int])
		}
		return TV{V: valueIte(cnd, a.V, b.V), T: a.T}
	case "bits":
		x := c.eval(e.Args[0])
		if !isFloat(x.T) {
			evalFail("bits() needs a float")
		}
		if intWidth(x.T) == 32 {
			return TV{V: x.V, T: types.Typ[types.Uint32]}
		}
		return TV{V: x.V, T: types.Typ[types.Uint64]}
	case "float64frombits":
		x := c.convert(c.eval(e.Args[0]), types.Typ[types.Uint64])
		return TV{V: x.V, T: types.Typ[types.Float64]}
	case "float32frombits":
		x := c.convert(c.eval(e.Args[0]), types.Typ[types.Uint32])
		return TV{V: x.V, T: types.Typ[types.Float32]}
	case "isNaN":
		x := c.eval(e.Args[0])
		return TV{V: fpIsNaN(x.V.(*Term)), T: types.Typ[types.Bool]}
	case "fpIntegral":
		// the float is finite and has no fractional part
		x := c.fp64(c.eval(e.Args[0]))
		return TV{V: And(Not(FPOp("fp.isNaN", BoolSort, x)), Not(FPOp("fp.isInfinite", BoolSort, x)),
			FPOp("fp.eq", BoolSort, FPOp("fp.roundToIntegral", FP64, RTZ, x), x)), T: types.Typ[types.Bool]}
	case "fpToSBV64":
		// mathematical truncation to a signed 64-bit integer (meaningful only for -2^63 <= x < 2^63)
		x := c.fp64(c.eval(e.Args[0]))
		return TV{V: FPOp("(_ fp.to_sbv 64)", BV64, RTZ, x), T: types.Typ[types.Int64]}
	case "fpToUBV64":
		// mathematical truncation to an unsigned 64-bit integer (meaningful only for -1 < x < 2^64)
		x := c.fp64(c.eval(e.Args[0]))
		return TV{V: FPOp("(_ fp.to_ubv 64)", BV64, RTZ, x), T: types.Typ[types.Uint64]}
	case "isInf":
		x := c.eval(e.Args[0])
		return TV{V: fpIsInf(x.V.(*Term)), T: types.Typ[types.Bool]}
	case "allocated":
		x := c.eval(e.Args[0])
		return TV{V: Select(c.cur.Alloc, refOf(x)), T: types.Typ[types.Bool]}
	case "fresh":
		x := c.eval(e.Args[0])
		r := refOf(x)
		return TV{V: And(Not(Select(c.old.Alloc, r)), Select(c.cur.Alloc, r), Ne(r, BVU(0, 64))), T: types.Typ[types.Bool]}
	case "evRecv":
		// the receiver (interface value) that logged call i was made on
		idx := c.convert(c.eval(e.Args[0]), types.Typ[types.Uint64]).V.(*Term)
		return TV{V: Select(c.cur.evArray("ev:recv", IfaceSrt), idx), T: types.NewInterfaceType(nil, nil)}
	case "evResult":
		// evResult(i, k, "Type"): result k of logged call i, which has the given type
		idx := c.convert(c.eval(e.Args[0]), types.Typ[types.Uint64]).V.(*Term)
		kc := c.eval(e.Args[1])
		sl, ok := e.Args[2].(*StrLit)
		if kc.C == nil || !ok {
			evalFail("evResult(i, k, \"Type\")")
		}
		rt := c.resolveType(sl.Val)
		j := -1
		v := buildShape(rt, func(_ string, s *Sort) *Term {
			j++
			return Select(c.cur.evArray(fmt.Sprintf("ev:r%d.%d:%s", kc.C.Int64(), j, s.String()), s), idx)
		}, "")
		return TV{V: v, T: rt}
	case "evArg":
		// evArg(i, k, "Type"): argument k of logged call i, which has the given type
		idx := c.convert(c.eval(e.Args[0]), types.Typ[types.Uint64]).V.(*Term)
		kc := c.eval(e.Args[1])
		sl, ok := e.Args[2].(*StrLit)
		if kc.C == nil || !ok {
			evalFail("evArg(i, k, \"Type\")")
		}
		rt := c.resolveType(sl.Val)
		j := -1
		v := buildShape(rt, func(_ string, s *Sort) *Term {
			j++
			return Select(c.cur.evArray(evArrayName(int(kc.C.Int64()), j, s), s), idx)
		}, "")
		return TV{V: v, T: rt}
	case "evIs":
		// evIs(i, "Method"): entry i of the ghost event log is a call of Method
		idx := c.convert(c.eval(e.Args[0]), types.Typ[types.Uint64]).V.(*Term)
		ms, ok := e.Args[1].(*StrLit)
		if !ok {
			evalFail("evIs(i, \"Method\")")
		}
		t, err := c.eng.forwardedTerm(c.cur, idx, ms.Val, nil)
		if err != nil {
			evalFail("%v", err)
		}
		return TV{V: t, T: types.Typ[types.Bool]}
	case "typeIs":
		x := c.eval(e.Args[0])
		var t types.Type
		if sl, ok := e.Args[1].(*StrLit); ok {
			t = c.resolveType(sl.Val)
		} else {
			t = c.tryType(e.Args[1])
		}
		if t == nil {
			evalFail("typeIs: unknown type %s", ExprString(e.Args[1]))
		}
		return TV{V: Eq(ifaceTag(x.V.(*Term)), c.eng.typeTag(t)), T: types.Typ[types.Bool]}
	case "payload":
		x := c.eval(e.Args[0])
		var t types.Type
		if sl, ok := e.Args[1].(*StrLit); ok {
			t = c.resolveType(sl.Val)
		} else {
			t = c.tryType(e.Args[1])
		}
		if t == nil {
			evalFail("payload: unknown type %s", ExprString(e.Args[1]))
		}
		return TV{V: c.eng.ifacePayload(x.V.(*Term), t), T: t}
	case "closureIs", "closureVar":
		// closureIs(f, "name"): the function value f is the function (literal) called name, e.g.
		// "beginArrayUint8$1"; closureVar(f, "x"): the value f's function literal captured for its
		// free variable x. Both need f to be a function value whose identity is known here.
		x := c.eval(e.Args[0])
		sl, ok := e.Args[1].(*StrLit)
		if !ok {
			evalFail("%s: second argument must be a string literal", name)
		}
		var fv *FuncV
		switch v := x.V.(type) {
		case *FuncV:
			fv = v
		case *Term:
			fv = closureOf(v)
		}
		if name == "closureIs" {
			if fv == nil {
				return TV{V: False, T: types.Typ[types.Bool]}
			}
			fn := fv.Fn.Name()
			return TV{V: Bool(fn == sl.Val || strings.HasSuffix(fn, "."+sl.Val)), T: types.Typ[types.Bool]}
		}
		if fv == nil {
			evalFail("closureVar: the identity of the function value %s is not known", ExprString(e.Args[0]))
		}
		for i, v := range fv.Fn.FreeVars {
			if v.Name() == sl.Val && i < len(fv.Bind) {
				// variables are captured by reference: read the captured cell in the current state
				if pv, isPtr := fv.Bind[i].(*PtrV); isPtr && pv.Kind == PCell {
					if pt, isP := v.Type().Underlying().(*types.Pointer); isP {
						return TV{V: c.cur.Cells[pv.Cell], T: pt.Elem()}
					}
				}
				return TV{V: fv.Bind[i], T: v.Type()}
			}
		}
		// the captured variable was renamed: if the literal captures exactly one variable besides the
		// receiver, that is the one meant (reported as a note)
		var others []int
		for i, v := range fv.Fn.FreeVars {
			if v.Name() != "_this" && i < len(fv.Bind) {
				others = append(others, i)
			}
		}
		if len(others) == 1 {
			i := others[0]
			v := fv.Fn.FreeVars[i]
			c.eng.note("closureVar(%s, %q): the literal captures no variable of that name; read as the one variable it captures besides the receiver, %q (renamed?)", fv.Fn.Name(), sl.Val, v.Name())
			if pv, isPtr := fv.Bind[i].(*PtrV); isPtr && pv.Kind == PCell {
				if pt, isP := v.Type().Underlying().(*types.Pointer); isP {
					return TV{V: c.cur.Cells[pv.Cell], T: pt.Elem()}
				}
			}
			return TV{V: fv.Bind[i], T: v.Type()}
		}
		evalFail("closureVar: %s has no free variable %s", fv.Fn.Name(), sl.Val)
		return TV{}
	case "val":
		// val(p): the struct/array value stored at pointer p
		x := c.eval(e.Args[0])
		pt, ok := x.T.Underlying().(*types.Pointer)
		if !ok || !isAggregate(pt.Elem()) {
			evalFail("val() needs a pointer to a struct or array")
		}
		return TV{V: c.cur.LoadObject(pt.Elem(), x.V.(*Term)), T: pt.Elem()}
	case "box":
		// box(x): x converted to interface{} (as a map key or an `interface{}` argument would be)
		x := c.eval(e.Args[0])
		if x.C != nil || x.T == nil {
			evalFail("box() needs a typed value")
		}
		return TV{V: c.eng.makeIface(c.cur, x.V, x.T), T: types.NewInterfaceType(nil, nil)}
	case "has":
		// has(m, k): key k is present in map m
		m := c.eval(e.Args[0])
		mt, ok := m.T.Underlying().(*types.Map)
		if !ok {
			evalFail("has() needs a map")
		}
		k := c.convert(c.eval(e.Args[1]), mt.Key())
		ms := c.cur.mapState(m.V.(*Term), mt)
		return TV{V: Select(ms.Dom, c.eng.keyTerm(k.V, mt.Key())), T: types.Typ[types.Bool]}
	case "forwarded":
		// forwarded(i, "Method", args...): entry i of the ghost event log is a call of Method with exactly these arguments
		if len(e.Args) < 2 {
			evalFail("forwarded(i, \"Method\", args...)")
		}
		idx := c.convert(c.eval(e.Args[0]), types.Typ[types.Uint64]).V.(*Term)
		ms, ok := e.Args[1].(*StrLit)
		if !ok {
			evalFail("forwarded: method name must be a string literal")
		}
		var args []Value
		for _, a := range e.Args[2:] {
			tv := c.eval(a)
			if tv.C != nil {
				evalFail("forwarded: argument %s needs an explicit type", ExprString(a))
			}
			args = append(args, tv.V)
		}
		t, err := c.eng.forwardedTerm(c.cur, idx, ms.Val, args)
		if err != nil {
			evalFail("%v", err)
		}
		return TV{V: t, T: types.Typ[types.Bool]}
	case "evUnchangedBelow":
		// every entry of the ghost event log below n is what it was in the old state
		n := c.convert(c.eval(e.Args[0]), types.Typ[types.Uint64]).V.(*Term)
		var cs []*Term
		var names []string
		for k := range c.cur.Ghost {
			if strings.HasPrefix(k, "ev:") {
				names = append(names, k)
			}
		}
		sort.Strings(names)
		for _, k := range names {
			cur := c.cur.Ghost[k].(*Term)
			old := c.old.evArray(k, cur.Sort.Elem)
			if cur == old {
				continue
			}
			T.fresh["q:e"]++
			j := Var(fmt.Sprintf("e?%d", T.fresh["q:e"]), BV64)
			cs = append(cs, Forall([]*Term{j}, Implies(BVCmp("bvult", j, n), Eq(Select(cur, j), Select(old, j)))))
		}
		return TV{V: And(cs...), T: types.Typ[types.Bool]}
	case "memEq":
		// memEq(a, b): the two byte slices have equal length and contents (quantified)
		a, b := c.eval(e.Args[0]), c.eval(e.Args[1])
		return TV{V: c.seqEq(a, b), T: types.Typ[types.Bool]}
	case "contents":
		// contents(s): the array-valued snapshot of the element memory underlying slice s (bytes only)
		x := c.eval(e.Args[0])
		sv, ok := x.V.(SliceV)
		if !ok {
			evalFail("contents() needs a slice")
		}
		et := x.T.Underlying().(*types.Slice).Elem()
		m := c.cur.Mem(et).(*Term)
		return TV{V: Select(m, sv.Arr), T: &GhostArrT{Idx: types.Typ[types.Uint64], Elem: et}}
	}
	// spec function?
	if sf, ok := c.eng.cs.Specs[name]; ok {
		return c.callSpec(sf, e)
	}
	// ghost function
	if g, ok := c.eng.cs.Ghosts[name]; ok && g.IsFunc {
		var args []*Term
		for i, a := range e.Args {
			pt := c.resolveType(g.Params[i].Type)
			args = append(args, c.convert(c.eval(a), pt).V.(*Term))
		}
		rt := c.resolveType(g.Res)
		return TV{V: App("ghost!"+name, scalarSort(rt), args...), T: rt}
	}
	// conversion?
	if t := c.tryType(e.Fun); t != nil {
		if len(e.Args) != 1 {
			evalFail("conversion takes one argument")
		}
		return c.convert(c.eval(e.Args[0]), t)
	}
	evalFail("unknown function %s", ExprString(e.Fun))
	return TV{}
}

// fp64 returns the FloatingPoint term of a float32/float64 value (float32 widened exactly).
func (c *EvalCtx) fp64(x TV) *Term {
	t, ok := x.V.(*Term)
	if !ok || x.T == nil || !isFloat(x.T) {
		evalFail("float expected")
	}
	f := toFP(t)
	if intWidth(x.T) == 32 {
		f = FPOp("(_ to_fp 11 53)", FP64, RNE, f)
	}
	return f
}

func refOf(x TV) *Term {
	switch v := x.V.(type) {
	case *Term:
		return v
	case SliceV:
		return v.Arr
	}
	evalFail("reference expected")
	return nil
}

// seqEq: equal lengths and pointwise equal bytes (for []byte / string values).
func (c *EvalCtx) seqEq(a, b TV) *Term {
	la, geta := c.seqAccess(a)
	lb, getb := c.seqAccess(b)
	T.fresh["q:k"]++
	k := Var(fmt.Sprintf("k?%d", T.fresh["q:k"]), BV64)
	return And(Eq(la, lb), Forall([]*Term{k}, Implies(BVCmp("bvult", k, la), Eq(geta(k), getb(k)))))
}

func (c *EvalCtx) seqAccess(a TV) (*Term, func(*Term) *Term) {
	switch v := a.V.(type) {
	case SliceV:
		et := a.T.Underlying().(*types.Slice).Elem()
		m := c.cur.Mem(et).(*Term)
		base := Select(m, v.Arr)
		return v.Len, func(k *Term) *Term { return Select(base, BVBin("bvadd", v.Off, k)) }
	case StringV:
		return v.Len, func(k *Term) *Term { return Select(v.Chars, BVBin("bvadd", v.Off, k)) }
	}
	evalFail("byte sequence expected")
	return nil, nil
}

func (c *EvalCtx) callSpec(sf *SpecFn, e *CallE) TV {
	if c.depth > 40 {
		evalFail("spec function recursion too deep in %s", sf.Name)
	}
	if len(e.Args) != len(sf.Params) {
		evalFail("spec %s: %d arguments expected", sf.Name, len(sf.Params))
	}
	// resolve types in the spec's own package context
	sc := *c
	if sf.Pkg != "" {
		if p := c.eng.typesPkg(sf.Pkg); p != nil {
			sc.pkg = p
		}
	}
	env := map[string]TV{}
	for i, p := range sf.Params {
		pt := sc.resolveType(p.Type)
		env[p.Name] = c.convert(c.eval(e.Args[i]), pt)
	}
	sc.env = env
	sc.depth = c.depth + 1
	sc.lookup = nil
	r := sc.eval(sf.Body)
	rt := sc.resolveType(sf.Res)
	return sc.convert(r, rt)
}

// unify makes two operands agree on a type (untyped constants adopt the other side's type).
func (c *EvalCtx) unify(a, b TV) (TV, TV) {
	if a.C != nil && b.C == nil && b.T != nil {
		return c.convert(a, b.T), b
	}
	if b.C != nil && a.C == nil && a.T != nil {
		return a, c.convert(b, a.T)
	}
	// nil
	if a.V == nil && a.C == nil && b.T != nil {
		return TV{V: zeroOf(b.T), T: b.T}, b
	}
	if b.V == nil && b.C == nil && a.T != nil {
		return a, TV{V: zeroOf(a.T), T: a.T}
	}
	return a, b
}

func (c *EvalCtx) convert(x TV, to types.Type) TV {
	if x.C != nil {
		if isFloat(to) {
			f, _ := new(big.Float).SetInt(x.C).Float64()
			if intWidth(to) == 32 {
				return TV{V: BVU(uint64(f32bits(float32(f))), 32), T: to}
			}
			return TV{V: BVU(f64bits(f), 64), T: to}
		}
		if isBoolean(to) {
			evalFail("cannot convert integer constant to bool")
		}
		w := intWidth(to)
		if w == 0 {
			if s := scalarSort(to); s != nil && s.Kind == SBV {
				w = s.Width
			} else {
				evalFail("cannot convert constant to %s", to)
			}
		}
		return TV{V: BVConst(x.C, w), T: to}
	}
	if x.V == nil {
		return TV{V: zeroOf(to), T: to}
	}
	if x.T == nil {
		return TV{V: x.V, T: to}
	}
	if _, ok := to.(*GhostArrT); ok {
		return x
	}
	t, isTerm := x.V.(*Term)
	if isTerm && t.Sort.Kind == SBV && (isInteger(to) || isFloat(to)) && (isInteger(x.T) || isFloat(x.T)) {
		return TV{V: convertNum(t, x.T, to, c.assume), T: to}
	}
	// string <-> []byte snapshots
	if sv, ok := x.V.(SliceV); ok && isString(to) {
		m := c.cur.Mem(types.Typ[types.Uint8]).(*Term)
		return TV{V: StringV{Select(m, sv.Arr), sv.Off, sv.Len}, T: to}
	}
	return TV{V: x.V, T: to}
}

// convertNum converts numeric bit-vector terms between Go numeric types.
func convertNum(t *Term, from, to types.Type, assume func(*Term)) *Term {
	fw, tw := intWidth(from), intWidth(to)
	switch {
	case isInteger(from) && isInteger(to):
		if tw <= fw {
			return Extract(tw-1, 0, t)
		}
		if isSigned(from) {
			return SignExt(t, tw)
		}
		return ZeroExt(t, tw)
	case isFloat(from) && isFloat(to):
		if fw == tw {
			return t
		}
		r := fpToBits(FPOp("(_ to_fp "+fpDims(tw)+")", fpSort(tw), RNE, toFP(t)), tw, assume)
		// A-FPCONV: CVTSS2SD / CVTSD2SS on a NaN keep the sign, set the quiet bit and keep the
		// (leading) payload bits; the FloatingPoint theory itself leaves the NaN pattern open.
		if r.Op == "app" && r.Name == "fpbits64" && fw == 32 {
			pat := BVBin("bvor", BVBin("bvor", BVBin("bvshl", ZeroExt(Extract(31, 31, t), 64), BVU(63, 64)), BVU(0x7ff8000000000000, 64)),
				BVBin("bvshl", ZeroExt(Extract(22, 0, t), 64), BVU(29, 64)))
			assume(Implies(fpIsNaN(t), Eq(r, pat)))
		} else if r.Op == "app" && r.Name == "fpbits32" && fw == 64 {
			pat := BVBin("bvor", BVBin("bvor", BVBin("bvshl", ZeroExt(Extract(63, 63, t), 32), BVU(31, 32)), BVU(0x7fc00000, 32)),
				Extract(31, 0, BVBin("bvlshr", ZeroExt(Extract(51, 0, t), 64), BVU(29, 64))))
			assume(Implies(fpIsNaN(t), Eq(r, pat)))
		}
		return r
	case isInteger(from) && isFloat(to):
		op := "(_ to_fp_unsigned " + fpDims(tw) + ")"
		if isSigned(from) {
			op = "(_ to_fp " + fpDims(tw) + ")"
		}
		return fpToBits(FPOp(op, fpSort(tw), RNE, t), tw, assume)
	case isFloat(from) && isInteger(to):
		return fpToInt(t, fw, tw, isSigned(to), assume)
	}
	panic(fmt.Sprintf("convertNum %s -> %s", from, to))
}

func (c *EvalCtx) evalBinary(e *Binary) TV {
	switch e.Op {
	case "&&":
		// a left operand that is literally false guards the right one (which may not be evaluable)
		lhs := c.boolOf(c.eval(e.X), e.X)
		if lhs == False {
			return TV{V: False, T: types.Typ[types.Bool]}
		}
		return TV{V: And(lhs, c.boolOf(c.eval(e.Y), e.Y)), T: types.Typ[types.Bool]}
	case "||":
		return TV{V: Or(c.boolOf(c.eval(e.X), e.X), c.boolOf(c.eval(e.Y), e.Y)), T: types.Typ[types.Bool]}
	case "==>":
		ante := c.cur.Simp(c.boolOf(c.eval(e.X), e.X))
		if ante == False {
			return TV{V: True, T: types.Typ[types.Bool]}
		}
		return TV{V: Implies(ante, c.boolOf(c.eval(e.Y), e.Y)), T: types.Typ[types.Bool]}
	case "<==>":
		return TV{V: Eq(c.boolOf(c.eval(e.X), e.X), c.boolOf(c.eval(e.Y), e.Y)), T: types.Typ[types.Bool]}
	}
	a, b := c.eval(e.X), c.eval(e.Y)
	if e.Op == "<<" || e.Op == ">>" {
		return c.shift(e.Op, a, b)
	}
	a, b = c.unify(a, b)
	if a.C != nil && b.C != nil {
		return constBin(e.Op, a.C, b.C)
	}
	switch e.Op {
	case "==", "!=":
		var r *Term
		if isFloat(a.T) && isFloat(b.T) {
			r = FPOp("fp.eq", BoolSort, toFP(a.V.(*Term)), toFP(b.V.(*Term)))
		} else {
			r = valueEqSafe(a, b, e)
		}
		if e.Op == "!=" {
			r = Not(r)
		}
		return TV{V: r, T: types.Typ[types.Bool]}
	}
	x, okx := a.V.(*Term)
	y, oky := b.V.(*Term)
	if !okx || !oky || x.Sort.Kind != SBV || y.Sort.Kind != SBV {
		evalFail("numeric operands expected in %s", ExprString(e))
	}
	if x.Sort != y.Sort {
		evalFail("operand width mismatch in %s: %s vs %s (add an explicit conversion)", ExprString(e), a.T, b.T)
	}
	signed := isSigned(a.T) && isSigned(b.T)
	if isSigned(a.T) != isSigned(b.T) && !isFloat(a.T) {
		evalFail("signedness mismatch in %s: %s vs %s (add an explicit conversion)", ExprString(e), a.T, b.T)
	}
	if isFloat(a.T) {
		fx, fy := toFP(x), toFP(y)
		w := intWidth(a.T)
		switch e.Op {
		case "<":
			return TV{V: FPOp("fp.lt", BoolSort, fx, fy), T: types.Typ[types.Bool]}
		case "<=":
			return TV{V: FPOp("fp.leq", BoolSort, fx, fy), T: types.Typ[types.Bool]}
		case ">":
			return TV{V: FPOp("fp.gt", BoolSort, fx, fy), T: types.Typ[types.Bool]}
		case ">=":
			return TV{V: FPOp("fp.geq", BoolSort, fx, fy), T: types.Typ[types.Bool]}
		case "+", "-", "*", "/":
			op := map[string]string{"+": "fp.add", "-": "fp.sub", "*": "fp.mul", "/": "fp.div"}[e.Op]
			return TV{V: fpToBits(FPOp(op, fpSort(w), RNE, fx, fy), w, c.assume), T: a.T}
		}
		evalFail("unsupported float operator %s", e.Op)
	}
	cmp := func(u, s string) TV {
		if signed {
			return TV{V: BVCmp(s, x, y), T: types.Typ[types.Bool]}
		}
		return TV{V: BVCmp(u, x, y), T: types.Typ[types.Bool]}
	}
	switch e.Op {
	case "<":
		return cmp("bvult", "bvslt")
	case "<=":
		return cmp("bvule", "bvsle")
	case ">":
		return cmp("bvugt", "bvsgt")
	case ">=":
		return cmp("bvuge", "bvsge")
	case "+":
		return TV{V: BVBin("bvadd", x, y), T: a.T}
	case "-":
		return TV{V: BVBin("bvsub", x, y), T: a.T}
	case "*":
		return TV{V: BVBin("bvmul", x, y), T: a.T}
	case "/":
		if signed {
			return TV{V: BVBin("bvsdiv", x, y), T: a.T}
		}
		return TV{V: BVBin("bvudiv", x, y), T: a.T}
	case "%":
		if signed {
			return TV{V: BVBin("bvsrem", x, y), T: a.T}
		}
		return TV{V: BVBin("bvurem", x, y), T: a.T}
	case "&":
		return TV{V: BVBin("bvand", x, y), T: a.T}
	case "|":
		return TV{V: BVBin("bvor", x, y), T: a.T}
	case "^":
		return TV{V: BVBin("bvxor", x, y), T: a.T}
	case "&^":
		return TV{V: BVBin("bvand", x, BVNot(y)), T: a.T}
	}
	evalFail("unsupported operator %s", e.Op)
	return TV{}
}

func valueEqSafe(a, b TV, e Expr) (r *Term) {
	defer func() {
		if x := recover(); x != nil {
			if _, ok := x.(evalErr); ok {
				panic(x)
			}
			evalFail("cannot compare operands of %s (%T vs %T): %v", ExprString(e), a.V, b.V, x)
		}
	}()
	if a.V == nil || b.V == nil {
		evalFail("cannot compare untyped nil in %s", ExprString(e))
	}
	return valueEq(a.V, b.V)
}

func (c *EvalCtx) shift(op string, a, b TV) TV {
	if a.C != nil && b.C != nil {
		if op == "<<" {
			return TV{C: new(big.Int).Lsh(a.C, uint(b.C.Uint64()))}
		}
		return TV{C: new(big.Int).Rsh(a.C, uint(b.C.Uint64()))}
	}
	if a.C != nil {
		a = c.convert(a, types.Typ[types.Int])
	}
	x := a.V.(*Term)
	return TV{V: shiftTerm(op, x, isSigned(a.T), c.asIndex(b)), T: a.T}
}

// shiftTerm implements Go shift semantics; cnt is a 64-bit unsigned count.
func shiftTerm(op string, x *Term, signed bool, cnt *Term) *Term {
	w := x.Sort.Width
	var c2 *Term
	big_ := BVCmp("bvuge", cnt, BVU(uint64(w), 64))
	if w <= 64 {
		c2 = Extract(w-1, 0, cnt)
	} else {
		c2 = ZeroExt(cnt, w)
	}
	switch op {
	case "<<":
		return Ite(big_, BVU(0, w), BVBin("bvshl", x, c2))
	default:
		if signed {
			return Ite(big_, BVBin("bvashr", x, BVU(uint64(w-1), w)), BVBin("bvashr", x, c2))
		}
		return Ite(big_, BVU(0, w), BVBin("bvlshr", x, c2))
	}
}

func constBin(op string, a, b *big.Int) TV {
	r := new(big.Int)
	bl := func(v bool) TV { return TV{V: Bool(v), T: types.Typ[types.Bool]} }
	switch op {
	case "+":
		return TV{C: r.Add(a, b)}
	case "-":
		return TV{C: r.Sub(a, b)}
	case "*":
		return TV{C: r.Mul(a, b)}
	case "/":
		return TV{C: r.Quo(a, b)}
	case "%":
		return TV{C: r.Rem(a, b)}
	case "&":
		return TV{C: r.And(a, b)}
	case "|":
		return TV{C: r.Or(a, b)}
	case "^":
		return TV{C: r.Xor(a, b)}
	case "&^":
		return TV{C: r.AndNot(a, b)}
	case "==":
		return bl(a.Cmp(b) == 0)
	case "!=":
		return bl(a.Cmp(b) != 0)
	case "<":
		return bl(a.Cmp(b) < 0)
	case "<=":
		return bl(a.Cmp(b) <= 0)
	case ">":
		return bl(a.Cmp(b) > 0)
	case ">=":
		return bl(a.Cmp(b) >= 0)
	}
	evalFail("unsupported constant operator %s", op)
	return TV{}
}

// expandBounded instantiates forall i :: i < C ==> body for small constant C.
func expandBounded(t *Term) *Term {
	cache := map[*Term]*Term{}
	var rec func(t *Term) *Term
	rec = func(t *Term) *Term {
		if r, ok := cache[t]; ok {
			return r
		}
		r := t
		switch t.Op {
		case "and", "or", "not", "=>", "ite":
			args := make([]*Term, len(t.Args))
			ch := false
			for i, a := range t.Args {
				args[i] = rec(a)
				if args[i] != a {
					ch = true
				}
			}
			if ch {
				r = rebuild(t, args)
			}
		case "forall":
			if len(t.Bnd) == 1 && t.Bnd[0].Sort.Kind == SBV {
				b := t.Bnd[0]
				body := t.Args[0]
				if body.Op == "=>" {
					if n, ok := boundOf(body.Args[0], b); ok && n <= 64 {
						var cs []*Term
						for k := 0; k < n; k++ {
							cs = append(cs, rec(Subst(body, map[*Term]*Term{b: BVU(uint64(k), b.Sort.Width)})))
						}
						r = And(cs...)
					}
				}
			}
		}
		cache[t] = r
		return r
	}
	return rec(t)
}

// upperBoundConst: a syntactic constant upper bound of an unsigned bit-vector term.
func upperBoundConst(t *Term) (int64, bool) {
	switch t.Op {
	case "const":
		if t.Val.IsInt64() {
			return t.Val.Int64(), true
		}
	case "ite":
		a, ok1 := upperBoundConst(t.Args[1])
		b, ok2 := upperBoundConst(t.Args[2])
		if ok1 && ok2 {
			if a > b {
				return a, true
			}
			return b, true
		}
	case "bvadd":
		a, ok1 := upperBoundConst(t.Args[0])
		b, ok2 := upperBoundConst(t.Args[1])
		if ok1 && ok2 && a+b < 1<<30 {
			return a + b, true
		}
	case "zero_extend":
		return upperBoundConst(t.Args[0])
	}
	return 0, false
}

func boundOf(ante, b *Term) (int, bool) {
	chk := func(a *Term) (int, bool) {
		if a.Op == "bvult" && a.Args[0] == b {
			if n, ok := upperBoundConst(a.Args[1]); ok {
				return int(n), true
			}
		}
		if a.Op == "bvule" && a.Args[0] == b {
			if n, ok := upperBoundConst(a.Args[1]); ok {
				return int(n) + 1, true
			}
		}
		return 0, false
	}
	if n, ok := chk(ante); ok {
		return n, true
	}
	if ante.Op == "and" {
		for _, a := range ante.Args {
			if n, ok := chk(a); ok {
				return n, true
			}
		}
	}
	return 0, false
}
