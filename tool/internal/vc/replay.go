package vc

// replay.go: lemmas, replay files for failed obligations, and the must-fail mutant corpus.

import (
	"encoding/json"
	"fmt"
	"os"
	"os/exec"
	"path/filepath"
	"sort"
	"strings"
	"time"
)

func (e *Engine) LoadContractsOverlay(mirrorDir, trustedDir, specDir string, overlay map[string][]byte) error {
	return e.LoadContracts(mirrorDir, trustedDir, specDir)
}

// VerifyLemma generates the obligation of a lemma (a closed formula over spec functions).
func (e *Engine) VerifyLemma(name string) {
	l, ok := e.cs.Lemmas[name]
	if !ok {
		e.Obls = append(e.Obls, &Obligation{Name: "lemma:" + name, Kind: "resolve", Func: "lemma:" + name, Failed: "no lemma named " + name})
		return
	}
	st := NewState()
	ctx := &EvalCtx{eng: e, cur: st, old: st, env: map[string]TV{}}
	if l.Pkg != "" {
		ctx.pkg = e.typesPkg(l.Pkg)
	}
	// a leading universal quantifier is replaced by fresh constants (valid for all values iff valid
	// for arbitrary constants); side conditions generated while evaluating the body (e.g. the
	// defining equations of float bit patterns) may then mention them
	body := l.Body.E
	var vars []NamedVal
	if q, ok := body.(*Quant); ok && q.Forall {
		func() {
			defer func() {
				if r := recover(); r != nil {
					if _, ok := r.(evalErr); !ok {
						panic(r)
					}
				}
			}()
			env := map[string]TV{}
			var vs []NamedVal
			for _, qv := range q.Vars {
				t := ctx.resolveType(qv.Type)
				srt := scalarSort(t)
				if srt == nil {
					return
				}
				v := Var("lemma:"+qv.Name, srt)
				env[qv.Name] = TV{V: v, T: t}
				vs = append(vs, NamedVal{Name: qv.Name, T: v})
			}
			ctx = ctx.with(env)
			body = q.Body
			vars = vs
		}()
	}
	t, err := ctx.EvalBool(body)
	if err != nil {
		e.Obls = append(e.Obls, &Obligation{Name: "lemma:" + name, Kind: "resolve", Func: "lemma:" + name, Failed: err.Error() + " at " + l.Body.Where()})
		return
	}
	e.Obls = append(e.Obls, &Obligation{Name: "lemma:" + name, Kind: "lemma", Func: "lemma:" + name, Assume: append([]*Term(nil), st.PC...), Goal: t,
		Clause: l.Body.Text, Where: l.Body.Where(), Vars: vars})
}

func sanitizeFileName(s string) string {
	r := strings.NewReplacer("/", "_", "*", "", "(", "", ")", "", "#", "-", ":", "-", " ", "_", "$", "_", "@", "_", "<", "le", ">", "gt", "=", "", ".", "_")
	s = r.Replace(s)
	if len(s) > 120 {
		s = s[:120]
	}
	return s
}

// WriteReplay writes the replay file of a failed obligation and, where a replay family exists
// for it, runs the model against the real code. It returns the path and whether the failing
// input was reproduced on the real code.
func WriteReplay(verifDir, repoDir, prop string, pd *PropertyDef, r *Result, e *Engine) (string, bool) {
	dir := filepath.Join(verifDir, "evidence", "replays")
	os.MkdirAll(dir, 0o755)
	base := filepath.Join(dir, prop+"-"+sanitizeFileName(r.Obl.Name))
	var sb strings.Builder
	fmt.Fprintf(&sb, "property: %s\nfailed obligation: %s\nkind: %s\n", prop, r.Obl.Name, r.Obl.Kind)
	if r.Obl.Where != "" {
		fmt.Fprintf(&sb, "code location: %s\n", r.Obl.Where)
	}
	if r.Obl.Clause != "" {
		fmt.Fprintf(&sb, "contract clause: %s\n", r.Obl.Clause)
	}
	fmt.Fprintf(&sb, "verifier verdict: %s (solver: %s, %.2fs)\n", r.Status, r.Solver, r.Seconds)
	switch r.Status {
	case "failed":
		fmt.Fprintf(&sb, "reason: %s\n", r.Output)
	case "sat":
		fmt.Fprintf(&sb, "counterexample (inputs of the function under contract):\n")
		for _, l := range SortedModel(r.Model) {
			fmt.Fprintf(&sb, "  %s\n", l)
		}
	default:
		fmt.Fprintf(&sb, "solver output:\n%s\n", firstLines(r.Output, 12))
	}
	confirmed := false
	if r.Status == "sat" {
		if src, name := replayProgram(prop, pd, r, e); src != "" {
			out, failed := runReplay(repoDir, r, src, name)
			fmt.Fprintf(&sb, "\nreplay against the real code (go test -overlay, in-package test %s):\n%s\n", name, out)
			if failed {
				confirmed = true
				fmt.Fprintf(&sb, "=> the failing input REPRODUCES on the real code\n")
			} else {
				fmt.Fprintf(&sb, "=> the failing input did not reproduce (abstraction in the model, or the property is violated on another input)\n")
			}
			os.WriteFile(base+"_test.go.txt", []byte(src), 0o644)
		}
	}
	if !confirmed {
		fmt.Fprintf(&sb, "\nno-failing-input-found: the obligation above, which is discharged on the unchanged tree, is not discharged on this tree.\n")
	}
	if r.Script != "" {
		os.WriteFile(base+".smt2", []byte(r.Script), 0o644)
		fmt.Fprintf(&sb, "query: %s.smt2\n", base)
	}
	path := base + ".txt"
	os.WriteFile(path, []byte(sb.String()), 0o644)
	return path, confirmed
}

// runReplay injects an in-package test through go test -overlay and reports whether it failed.
func runReplay(repoDir string, r *Result, src, testName string) (string, bool) {
	pkgDir := replayPackageDir(r.Obl.Func)
	if pkgDir == "" {
		return "no package for replay", false
	}
	tmp, err := os.MkdirTemp(envOr("TMPDIR", "/var/tmp"), "vcreplay")
	if err != nil {
		return err.Error(), false
	}
	defer os.RemoveAll(tmp)
	testFile := filepath.Join(tmp, "zz_vc_replay_test.go")
	os.WriteFile(testFile, []byte(src), 0o644)
	ov := map[string]map[string]string{"Replace": {filepath.Join(repoDir, pkgDir, "zz_vc_replay_test.go"): testFile}}
	data, _ := json.Marshal(ov)
	ovFile := filepath.Join(tmp, "overlay.json")
	os.WriteFile(ovFile, data, 0o644)
	cmd := exec.Command("go", "test", "-overlay", ovFile, "-vet=off", "-count=1", "-timeout", "60s", "-run", "^"+testName+"$", "./"+pkgDir)
	cmd.Dir = repoDir
	cmd.Env = append(os.Environ(), "GOFLAGS=-mod=mod", "GOPROXY=off", "GOSUMDB=off", "GOTOOLCHAIN=local")
	done := make(chan struct{})
	var out []byte
	go func() { out, err = cmd.CombinedOutput(); close(done) }()
	select {
	case <-done:
	case <-time.After(120 * time.Second):
		if cmd.Process != nil {
			cmd.Process.Kill()
		}
		return "replay timed out", false
	}
	s := string(out)
	if len(s) > 4000 {
		s = s[:4000] + "..."
	}
	return s, err != nil && strings.Contains(s, "--- FAIL")
}

func replayPackageDir(fn string) string {
	// fn looks like "cbe.(*Encoder).OnInt" or "internal/arrays.X"
	k := strings.Index(fn, ".")
	if k < 0 {
		return ""
	}
	// the package path is everything up to the last '/'-segment's first '.'
	slash := strings.LastIndex(fn, "/")
	dot := strings.Index(fn[slash+1:], ".")
	if dot < 0 {
		return ""
	}
	p := fn[:slash+1+dot]
	if strings.HasPrefix(p, "github.com/") {
		return ""
	}
	return p
}

// ---------------------------------------------------------------------------------------------
// must-fail mutants

type Mutant struct {
	Name     string `json:"name"`
	Property string `json:"property"`
	File     string `json:"file"` // relative to the repository
	Old      string `json:"old"`
	New      string `json:"new"`
	Expect   string `json:"expect"` // substring of an obligation name expected to fail (optional)
	Note     string `json:"note"`
	// Only restricts the run to these items of the property (function keys, "lemma:NAME",
	// "structural:NAME"): obligations are generated per function, so the verdict on the expected
	// obligation is the same as in a full run; it only saves time.
	Only []string `json:"only"`
}

func loadMutants(verifDir, prop string) []Mutant {
	var out []Mutant
	files, _ := filepath.Glob(filepath.Join(verifDir, "selftest", "mutants", "*.json"))
	sort.Strings(files)
	for _, f := range files {
		data, err := os.ReadFile(f)
		if err != nil {
			continue
		}
		var ms []Mutant
		if err := json.Unmarshal(data, &ms); err != nil {
			fmt.Fprintf(os.Stderr, "%s: %v\n", f, err)
			continue
		}
		for _, m := range ms {
			if prop == "" || m.Property == prop {
				out = append(out, m)
			}
		}
	}
	return out
}

// RunSelftest applies each must-fail mutant of the property as an overlay and checks that at
// least one obligation fails.
func RunSelftest(verifDir, repoDir, prop string, pd *PropertyDef, timeoutS int) map[string]interface{} {
	ms := loadMutants(verifDir, prop)
	res := map[string]interface{}{"mutants": len(ms)}
	killed, escaped, stale := 0, 0, 0
	var details []map[string]interface{}
	for _, m := range ms {
		path := filepath.Join(repoDir, m.File)
		data, err := os.ReadFile(path)
		d := map[string]interface{}{"name": m.Name, "file": m.File}
		if err != nil || strings.Count(string(data), m.Old) != 1 {
			stale++
			d["result"] = "stale (the text to replace does not occur exactly once in the current tree)"
			details = append(details, d)
			continue
		}
		mut := strings.Replace(string(data), m.Old, m.New, 1)
		pdm := pd
		if len(m.Only) > 0 {
			c := *pd
			c.Funcs, c.Lemmas, c.Structural = nil, nil, nil
			for _, o := range m.Only {
				switch {
				case strings.HasPrefix(o, "lemma:"):
					c.Lemmas = append(c.Lemmas, strings.TrimPrefix(o, "lemma:"))
				case strings.HasPrefix(o, "structural:"):
					c.Structural = append(c.Structural, strings.TrimPrefix(o, "structural:"))
				default:
					c.Funcs = append(c.Funcs, o)
				}
			}
			pdm = &c
		}
		oc, err := RunProperty(pdm, repoDir, verifDir, min(timeoutS, 20), 0, map[string][]byte{path: []byte(mut)})
		if err != nil {
			d["result"] = "killed (tree does not load: " + firstLines(err.Error(), 1) + ")"
			killed++
			details = append(details, d)
			continue
		}
		var failedNames []string
		hit := false
		for _, r := range oc.Failed {
			failedNames = append(failedNames, r.Obl.Name)
			if m.Expect == "" || strings.Contains(r.Obl.Name, m.Expect) {
				hit = true
			}
		}
		if hit {
			killed++
			d["result"] = "killed"
			if len(failedNames) > 5 {
				failedNames = failedNames[:5]
			}
			d["failed_obligations"] = failedNames
		} else {
			escaped++
			d["result"] = "ESCAPED"
			d["failed_obligations"] = failedNames
		}
		details = append(details, d)
	}
	res["killed"] = killed
	res["escaped"] = escaped
	res["stale"] = stale
	res["details"] = details
	return res
}

func CmdSelftest(args []string) int {
	verifDir, repoDir := "/verif", "/repo"
	props := args
	if len(props) == 0 {
		files, _ := filepath.Glob(filepath.Join(verifDir, "properties", "C*.json"))
		for _, f := range files {
			props = append(props, strings.TrimSuffix(filepath.Base(f), ".json"))
		}
	}
	bad := 0
	for _, id := range props {
		pd, err := loadProperty(verifDir, id, map[string]bool{})
		if err != nil {
			fmt.Fprintln(os.Stderr, err)
			return 2
		}
		r := RunSelftest(verifDir, repoDir, id, pd, 20)
		fmt.Printf("%s: %v mutants, %v killed, %v escaped, %v stale\n", id, r["mutants"], r["killed"], r["escaped"], r["stale"])
		if ds, ok := r["details"].([]map[string]interface{}); ok {
			for _, d := range ds {
				fmt.Printf("   %-40v %v %v\n", d["name"], d["result"], d["failed_obligations"])
			}
		}
		if n, _ := r["escaped"].(int); n > 0 {
			bad++
		}
	}
	if bad > 0 {
		return 1
	}
	return 0
}

func CmdReplay(args []string) int {
	if len(args) < 1 {
		fmt.Fprintln(os.Stderr, "usage: vc replay <file>")
		return 2
	}
	data, err := os.ReadFile(args[0])
	if err != nil {
		fmt.Fprintln(os.Stderr, err)
		return 2
	}
	fmt.Print(string(data))
	// re-run the Go replay if one was generated next to the text file
	goSrc := strings.TrimSuffix(args[0], ".txt") + "_test.go.txt"
	if src, err := os.ReadFile(goSrc); err == nil {
		name := "TestVCReplay"
		fn := ""
		for _, l := range strings.Split(string(data), "\n") {
			if strings.HasPrefix(l, "failed obligation: ") {
				fn = strings.SplitN(strings.TrimPrefix(l, "failed obligation: "), "#", 2)[0]
			}
		}
		out, failed := runReplay("/repo", &Result{Obl: &Obligation{Func: fn}}, string(src), name)
		fmt.Printf("\n--- re-run on the current tree ---\n%s\n", out)
		if failed {
			fmt.Println("failing input reproduces")
			return 1
		}
		fmt.Println("failing input does not reproduce on the current tree")
	}
	return 0
}

// replayProgram builds an in-package Go test from the model, if the obligation belongs to a
// family with a template. Returns "" when there is none.
func replayProgram(prop string, pd *PropertyDef, r *Result, e *Engine) (string, string) {
	for _, f := range replayFamilies {
		if src := f(prop, pd, r, e); src != "" {
			return src, "TestVCReplay"
		}
	}
	return "", ""
}

var replayFamilies []func(prop string, pd *PropertyDef, r *Result, e *Engine) string
