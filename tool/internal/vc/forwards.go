package vc

// forwards.go: the `forwards [COND :] Method(args)` contract clause: a declarative, functional
// description of what a function appends to the ghost event log (see logInvoke). It keeps the
// pass-through obligations (C15) quantifier-free: the log after the call is an explicit
// store into the log before the call.

import (
	"fmt"
	"sort"
	"strings"
)

type fwdResult struct {
	names    []string
	expected map[string]*Term // name -> merged value after the call (normal return)
	pre      map[string]*Term
	evLen    *Term
	preLen   *Term
	any      *Term // disjunction of the case conditions
}

func evNames(st *State) []string {
	var out []string
	for k := range st.Ghost {
		if strings.HasPrefix(k, "ev:") {
			out = append(out, k)
		}
	}
	sort.Strings(out)
	return out
}

// evalForwards evaluates the forwards cases of ct in ctx (whose cur must be the pre-state pre).
func (e *Engine) evalForwards(ctx *EvalCtx, ct *Contract, pre *State) (*fwdResult, error) {
	type caseRes struct {
		cond  *Term
		ghost map[string]Value
	}
	var cases []caseRes
	var conds []*Term
	for _, fc := range ct.Forwards {
		cond := True
		if fc.Cond != nil {
			t, err := ctx.EvalBool(fc.Cond.E)
			if err != nil {
				return nil, fmt.Errorf("%v at %s", err, fc.Cond.Where())
			}
			cond = t
		}
		var args []Value
		for _, a := range fc.Args {
			tv, err := ctx.Eval(a)
			if err != nil {
				return nil, fmt.Errorf("%v at %s", err, fc.Clause.Where())
			}
			if tv.C != nil {
				return nil, fmt.Errorf("forwards: argument %s needs an explicit type at %s", ExprString(a), fc.Clause.Where())
			}
			args = append(args, tv.V)
		}
		if _, ok := e.methodID(fc.Method); !ok {
			return nil, fmt.Errorf("forwards: no logged interface has a method %q (%s)", fc.Method, fc.Clause.Where())
		}
		cl := pre.Clone()
		e.logEvent(cl, fc.Method, args)
		cases = append(cases, caseRes{cond, cl.Ghost})
		conds = append(conds, cond)
	}
	res := &fwdResult{expected: map[string]*Term{}, pre: map[string]*Term{}, any: Or(conds...)}
	nameSet := map[string]*Sort{}
	for _, k := range evNames(pre) {
		nameSet[k] = pre.Ghost[k].(*Term).Sort
	}
	for _, c := range cases {
		for k, v := range c.ghost {
			if strings.HasPrefix(k, "ev:") {
				nameSet[k] = v.(*Term).Sort
			}
		}
	}
	for k := range nameSet {
		res.names = append(res.names, k)
	}
	sort.Strings(res.names)
	res.preLen = pre.evLen()
	for _, k := range res.names {
		pv := pre.evArray(k, nameSet[k].Elem)
		res.pre[k] = pv
		acc := pv
		for i := len(cases) - 1; i >= 0; i-- {
			cv := pv
			if v, ok := cases[i].ghost[k]; ok {
				cv = v.(*Term)
			}
			acc = Ite(cases[i].cond, cv, acc)
		}
		res.expected[k] = acc
	}
	accLen := res.preLen
	for i := len(cases) - 1; i >= 0; i-- {
		accLen = Ite(cases[i].cond, BVBin("bvadd", res.preLen, BVU(1, 64)), accLen)
	}
	res.evLen = accLen
	return res, nil
}

// applyForwards sets the event log of st to the expected one (normal) or to "unchanged or expected" (exceptional).
func (fr *fwdResult) apply(st *State, exceptional bool) {
	var b *Term
	if exceptional {
		b = Fresh("fwd-before-panic", BoolSort)
	}
	for _, k := range fr.names {
		v := fr.expected[k]
		if exceptional {
			v = Ite(b, v, fr.pre[k])
		}
		st.Ghost[k] = v
	}
	l := fr.evLen
	if exceptional {
		l = Ite(b, l, fr.preLen)
	}
	st.Ghost["evLen"] = l
}

// check returns the goal "the final event log of st is the expected one" (normal) or
// "is unchanged or the expected one" (exceptional).
func (fr *fwdResult) check(st *State, exceptional bool) *Term {
	names := map[string]bool{}
	for _, k := range fr.names {
		names[k] = true
	}
	for _, k := range evNames(st) {
		names[k] = true
	}
	var all []string
	for k := range names {
		all = append(all, k)
	}
	sort.Strings(all)
	var eqExp, eqPre []*Term
	for _, k := range all {
		cur, ok := st.Ghost[k].(*Term)
		if !ok {
			continue
		}
		if k == "ev:recv" || (len(k) > 4 && k[:4] == "ev:r" && k[4] >= '0' && k[4] <= '9') {
			continue // receiver and results of logged calls: auxiliary records, not part of "what was forwarded"
		}
		exp, ok1 := fr.expected[k]
		pre, ok2 := fr.pre[k]
		if !ok1 || !ok2 {
			// an array the contract never mentions: must be untouched (same term as its initial variable)
			init := Var("G:"+k, cur.Sort)
			eqExp = append(eqExp, Eq(cur, init))
			eqPre = append(eqPre, Eq(cur, init))
			continue
		}
		eqExp = append(eqExp, Eq(cur, exp))
		eqPre = append(eqPre, Eq(cur, pre))
	}
	curLen := st.evLen()
	eqExp = append(eqExp, Eq(curLen, fr.evLen))
	eqPre = append(eqPre, Eq(curLen, fr.preLen))
	if exceptional {
		return Or(And(eqExp...), And(eqPre...))
	}
	return And(eqExp...)
}
